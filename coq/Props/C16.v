(* C16 -- deletion and creation never destroy data that is not theirs to destroy. *)
From Coq Require Import ZArith List Bool String.
From Darr Require Import Base Fs Gen_tables Proofs.FsProofs.
Import ListNotations.
Open Scope string_scope.
Open Scope Z_scope.
Open Scope list_scope.

(* delete_array / delete_raggedarray unlink Darr's own file names directly in the
   directory, then rmdir.  Any other entry at any path -- foreign file, nested directory,
   symbolic link, also under values/ or indices/ of a ragged array when the sub-array is
   deleted -- keeps exactly its node (bytes / link target) ... *)
Theorem C16_delete_keeps_foreign : forall f base files opens writable q n,
  fs_get q f = Some n ->
  (forall x, In x files -> path_eqb (base ++ [x]) q = false) ->
  path_eqb base q = false ->
  fs_get q (snd (delete_dir f base files opens writable)) = Some n.
Proof. exact delete_keeps_foreign. Qed.
Print Assumptions C16_delete_keeps_foreign.

(* ... and, when it lies inside the directory, makes the call raise OSError *)
Theorem C16_delete_foreign_raises : forall f base files q n,
  fs_get q f = Some n -> is_prefix base q = true -> path_eqb base q = false ->
  (forall x, In x files -> path_eqb (base ++ [x]) q = false) ->
  (forall p m, In (p, m) f -> fs_get p f = Some m) ->
  fst (delete_dir f base files true true) = Err OSError.
Proof. exact delete_foreign_raises. Qed.
Print Assumptions C16_delete_foreign_raises.

(* a path that does not open as a Darr array of the right kind: TypeError, untouched;
   a read-only array: OSError, untouched *)
Theorem C16_delete_not_array : forall f base files writable,
  delete_dir f base files false writable = (Err TypeError, f).
Proof. exact delete_not_array. Qed.
Print Assumptions C16_delete_not_array.
Theorem C16_delete_readonly : forall f base files, delete_dir f base files true false = (Err OSError, f).
Proof. exact delete_readonly. Qed.
Print Assumptions C16_delete_readonly.

(* the creating functions on an existing path with overwrite=False (and on a plain file
   whatever the flag): refused before anything is touched *)
Theorem C16_create_no_overwrite : forall f p n, fs_get p f = Some n -> create_gate f p false = Err OSError.
Proof. exact create_no_overwrite. Qed.
Print Assumptions C16_create_no_overwrite.
Theorem C16_create_never_over_file : forall f p ow c, fs_get p f = Some (FFile c) -> create_gate f p ow = Err OSError.
Proof. exact create_never_over_file. Qed.
Print Assumptions C16_create_never_over_file.

(* the same for delete_raggedarray: a foreign entry anywhere in the directory, in values/ or in
   indices/ survives unmodified and makes the call raise OSError; wrong kind / read-only refuse *)
Theorem C16_ragged_delete_keeps_foreign : forall f base topfiles afiles q n opens writable,
  fs_get q f = Some n -> path_eqb base q = false ->
  path_eqb (base ++ ["values"%string]) q = false -> path_eqb (base ++ ["indices"%string]) q = false ->
  (forall x, In x topfiles -> path_eqb (base ++ [x]) q = false) ->
  (forall x, In x afiles -> path_eqb ((base ++ ["values"%string]) ++ [x]) q = false) ->
  (forall x, In x afiles -> path_eqb ((base ++ ["indices"%string]) ++ [x]) q = false) ->
  fs_get q (snd (delete_ragged f base topfiles afiles opens writable)) = Some n.
Proof. intros. apply ragged_delete_keeps_foreign; assumption. Qed.
Print Assumptions C16_ragged_delete_keeps_foreign.
Theorem C16_ragged_delete_foreign_raises : forall f base topfiles afiles q n,
  fs_get q f = Some n -> path_eqb base q = false ->
  path_eqb (base ++ ["values"%string]) q = false -> path_eqb (base ++ ["indices"%string]) q = false ->
  (forall x, In x topfiles -> path_eqb (base ++ [x]) q = false) ->
  (forall x, In x afiles -> path_eqb ((base ++ ["values"%string]) ++ [x]) q = false) ->
  (forall x, In x afiles -> path_eqb ((base ++ ["indices"%string]) ++ [x]) q = false) ->
  is_prefix base q = true ->
  fst (delete_ragged f base topfiles afiles true true) = Err OSError.
Proof. intros. eapply ragged_delete_foreign_raises; eassumption. Qed.
Print Assumptions C16_ragged_delete_foreign_raises.
Theorem C16_ragged_delete_refusals : forall f base tf af writable,
  delete_ragged f base tf af false writable = (Err TypeError, f) /\
  delete_ragged f base tf af true false = (Err OSError, f).
Proof. intros. split; reflexivity. Qed.
Print Assumptions C16_ragged_delete_refusals.

Example C16_example :
  let base := ["B"] in
  let f := [(base, FDir); (base ++ ["README.txt"], FFile [1]); (base ++ ["arrayvalues.bin"], FFile [2]);
            (base ++ ["keep.txt"], FFile [7]); (base ++ ["sub"], FDir); (base ++ ["sub"; "x"], FLink ["etc"])] in
  let r := delete_dir f base array_filenames true true in
  fst r = Err OSError /\ fs_get (base ++ ["keep.txt"]) (snd r) = Some (FFile [7]) /\
  fs_get (base ++ ["sub"; "x"]) (snd r) = Some (FLink ["etc"]) /\
  fs_get (base ++ ["arrayvalues.bin"]) (snd r) = None /\
  fst (delete_dir (firstn 3 f) base array_filenames true true) = Ok tt /\
  snd (delete_dir (firstn 3 f) base array_filenames true true) = [].
Proof. vm_compute. repeat split. Qed.
