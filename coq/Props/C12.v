(* C12 -- indexing reads and writes follow NumPy semantics, as detached copies, durably.
   PARTIAL (see DESIGN.md): advanced (integer-array / boolean-mask) indexing and NumPy's
   error classes are NumPy's own behaviour (oracle); that a returned array survives
   unmapping is a fact about interpreter memory.  Proved here: Python's slice
   normalisation and the positions a basic index selects; the handle discipline of every
   access; write-through; results independent of open contexts. *)
From Coq Require Import ZArith List Bool.
From Darr Require Import Base Index Sched Proofs.SchedProofs Proofs.IndexProofs.
Import ListNotations.
Open Scope Z_scope.

(* slices: exactly lo, lo+step, ... on the right side of hi, for every step sign *)
Theorem C12_slice_positive_step : forall lo hi st i, 0 < st ->
  In i (slice_idx lo hi st) <-> lo <= i < hi /\ (i - lo) mod st = 0.
Proof. exact slice_idx_pos. Qed.
Print Assumptions C12_slice_positive_step.

Theorem C12_slice_negative_step : forall lo hi st i, st < 0 ->
  In i (slice_idx lo hi st) <-> hi < i <= lo /\ (lo - i) mod (- st) = 0.
Proof. exact slice_idx_neg. Qed.
Print Assumptions C12_slice_negative_step.

(* with Python's normalisation of start/stop (defaults, negative values, clamping) every
   selected position lies inside the axis -- out-of-range slices select nothing, never
   read out of bounds *)
Theorem C12_slice_in_range : forall a b c n i, 0 <= n -> c <> Some 0 ->
  let '(lo, hi, st) := slice_norm a b c n in
  In i (slice_idx lo hi st) -> 0 <= i < n.
Proof. exact slice_in_range. Qed.
Print Assumptions C12_slice_in_range.

Theorem C12_result_size : forall sel str base,
  length str = length (filter (fun s => match s with SelNew => false | _ => true end) sel) ->
  Z.of_nat (length (offsets sel str base)) = prodZ (rshape sel).
Proof. exact offsets_count. Qed.
Print Assumptions C12_result_size.

(* every access -- a read, a write, or one for which NumPy raises -- made outside contexts
   and generators leaves no memory map, no file handle and no user behind *)
Theorem C12_discipline : forall s a, SInv s -> count_active (sc_gens s) = 0%nat -> sc_ctx s = [] ->
  (exists i, a = ARead i) \/ (exists i v, a = AWrite i v) \/ a = AAccessErr ->
  let s' := snd (sched_step s a) in
  sc_cache s' = None /\ sc_open s' = [] /\ sc_users s' = 0%nat.
Proof. exact access_discipline. Qed.
Print Assumptions C12_discipline.

(* a[i] = v takes effect: the next read (from any handle state) returns v, other
   elements are unchanged *)
Theorem C12_write_through : forall s i v, SInv s ->
  let s' := snd (sched_step s (AWrite i v)) in
  SInv s' /\ fst (sched_step s' (ARead i)) = OValue v /\
  forall j, j <> i -> fst (sched_step s' (ARead j)) = fst (sched_step s (ARead j)).
Proof. exact write_then_read. Qed.
Print Assumptions C12_write_through.

(* results are identical inside and outside an open_array() context (and whatever
   generators are active): a read returns the current value *)
Theorem C12_context_independent : forall s i, SInv s ->
  fst (sched_step s (ARead i)) = OValue (cget (sc_data s) i).
Proof. exact read_value. Qed.
Print Assumptions C12_context_independent.

(* the length may change while the array is open -- append or truncate_array inside an
   open_array() context: the shared map is renewed, the protocol invariant is kept (so reads keep
   returning current values, C12_context_independent, and nothing leaks, C12_discipline) *)
Theorem C12_resize_in_context : forall s n, SInv s ->
  let s' := snd (sched_step s (AResize n)) in
  SInv s' /\ sc_len s' = n /\ sc_data s' = ctrunc (sc_data s) n /\ sc_users s' = sc_users s /\
  sc_gens s' = sc_gens s /\ sc_ctx s' = sc_ctx s.
Proof. exact resize_step. Qed.
Print Assumptions C12_resize_in_context.

(* ... and the elements below the new length keep their values, the others are gone *)
Theorem C12_resize_values : forall c n i, cget (ctrunc c n) i = if i <? n then cget c i else i.
Proof. exact cget_ctrunc. Qed.
Print Assumptions C12_resize_values.

Example C12_example :
  basic_index [ISlice (Some 1) None (Some 2); IEllipsis; IInt (-1)] [5; 2; 3] = Ok ([2; 2], [8; 11; 20; 23]) /\
  basic_index [INone; ISlice None None (Some (-2))] [5] = Ok ([1; 3], [4; 2; 0]) /\
  basic_index [IInt 5] [5] = Err IndexError /\ basic_index [IInt 0; IInt 0] [5] = Err IndexError /\
  basic_index [ISlice (Some 10) (Some 20) None] [5] = Ok ([0], []) /\
  basic_index [ISlice None None (Some 0)] [5] = Err ValueError.
Proof. vm_compute. repeat split. Qed.
