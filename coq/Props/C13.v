(* C13 -- metadata behaves as a dictionary persisted to metadata.json. *)
From Coq Require Import ZArith List Bool.
From Darr Require Import Base Meta Proofs.MetaProofs.
Import ListNotations.
Open Scope Z_scope.

(* dictionary laws of the stored mapping (keys: strings as code-point lists; values:
   the JSON round trip of what was given -- H-json-rt is exercised by the harness) *)
Theorem C13_get_after_set : forall d k v, lookup k (insert k v d) = Some v.
Proof. exact lookup_insert_same. Qed.
Print Assumptions C13_get_after_set.
Theorem C13_set_keeps_others : forall d k v k', k <> k' -> lookup k' (insert k v d) = lookup k' d.
Proof. exact lookup_insert_other. Qed.
Print Assumptions C13_set_keeps_others.
Theorem C13_removed_is_gone : forall d k, lookup k (remove k d) = None.
Proof. exact lookup_remove_same. Qed.
Print Assumptions C13_removed_is_gone.
Theorem C13_remove_keeps_others : forall d k k', k <> k' -> lookup k' (remove k d) = lookup k' d.
Proof. exact lookup_remove_other. Qed.
Print Assumptions C13_remove_keeps_others.

(* after ANY sequence of update / setitem / pop (with or without default) / popitem / del
   / mode changes / reopening: metadata.json is never left unparsable, it exists exactly
   when the metadata are non-empty, and then holds them sorted by key *)
Theorem C13_file_iff_nonempty : forall os s, MInv s ->
  MInv (m_run s os) /\ (m_file (m_run s os) = Absent <-> m_abs (m_run s os) = []).
Proof.
  intros os s H. pose proof (m_run_inv os s H) as H'. split; [exact H'|exact (file_iff_nonempty _ H')].
Qed.
Print Assumptions C13_file_iff_nonempty.

(* update merges like dict.update and returns None *)
Theorem C13_update : forall s kvs, MInv s -> m_mode s = RW ->
  fst (m_step s (MUpdate (Some kvs))) = ONone /\
  m_abs (snd (m_step s (MUpdate (Some kvs)))) = update_all kvs (m_abs s).
Proof. exact m_update_spec. Qed.
Print Assumptions C13_update.

(* pop: the value and removal when present; with a default NEVER an error; without a
   default KeyError for a missing key; nothing else changes *)
Theorem C13_pop : forall s k dflt, MInv s -> m_mode s = RW ->
  match lookup k (m_abs s) with
  | Some v => fst (m_step s (MPop k dflt)) = OVal v /\
              m_abs (snd (m_step s (MPop k dflt))) = remove k (m_abs s)
  | None => fst (m_step s (MPop k dflt)) = (if dflt then ODefault else OErr KeyError) /\
            m_abs (snd (m_step s (MPop k dflt))) = m_abs s
  end.
Proof. exact m_pop_spec. Qed.
Print Assumptions C13_pop.

(* an update containing a non-serialisable value raises TypeError and changes nothing *)
Theorem C13_update_nonserialisable : forall s, MInv s -> m_mode s = RW ->
  m_step s (MUpdate None) = (OErr TypeError, s).
Proof. exact m_update_nonserialisable. Qed.
Print Assumptions C13_update_nonserialisable.

(* (C11) read-only; (C17) crash states of a metadata change *)
Theorem C13_readonly : forall s o, m_mode s = R ->
  (exists kvs, o = MUpdate kvs) \/ (exists k d, o = MPop k d) \/ o = MPopItem \/ (exists k, o = MDel k) ->
  m_step s o = (OErr OSError, s).
Proof. exact m_readonly. Qed.
Print Assumptions C13_readonly.
Theorem C13_crash_safe : forall s o f, MInv s -> In f (m_crash_states s o) ->
  m_read (mkM f R) = Err ValueError \/ f = m_file s \/ f = m_file (snd (m_step s o)).
Proof. exact m_crash_safe. Qed.
Print Assumptions C13_crash_safe.

Example C13_example :
  let s0 := mkM Absent RW in
  MInv s0 /\
  fst (m_step s0 (MPop [107] true)) = ODefault /\ m_file (snd (m_step s0 (MPop [107] true))) = Absent /\
  m_file (snd (m_step s0 (MUpdate (Some [])))) = Absent /\
  m_file (m_run s0 [MUpdate (Some [([98], [2;7]); ([97], [2;5])]); MPop [98] false])
    = Val [([97], [2;5])] /\
  m_file (m_run s0 [MUpdate (Some [([98], [2;7])]); MPopItem]) = Absent.
Proof. vm_compute. repeat split. Qed.
