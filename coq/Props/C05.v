(* C05 -- the RaggedArray directory stays structurally well-formed and self-describing. *)
From Coq Require Import ZArith List Bool.
From Darr Require Import Base ArrayModel Codec RaggedModel Spec
     Proofs.ArrayRefine Proofs.RaggedBase Proofs.RaggedRefine Proofs.RaggedProps.
Import ListNotations.
Open Scope Z_scope.

(* wf_ragged d: values/ and indices/ are well-formed Darr arrays (C02's Inv_disk),
   values has shape (N,)+atom, indices has shape (n,2) with one of the integer index
   types, the rows a reader obtains from indices/ start at 0, have start <= end, each
   start equals the previous end and the last end equals N (chain_ok 0 idx = Some N),
   the top-level description reports len = n, size = N x prod(atom), atom, numtype,
   and a README exists. *)
Theorem C05_reachable : forall os w g,
  RRel w g -> wf_rops g os -> wf_ragged (snd (rrun w os)).
Proof.
  intros os w g HR Hwf. destruct (rrun_refines os w g HR Hwf) as [_ HR'].
  exact (rrel_wf_ragged _ _ HR').
Qed.
Print Assumptions C05_reachable.

Theorem C05_created : forall g, wf_srag g ->
  exists w, rcreate (g_nt g) (g_bo g) (g_atom g) (g_ity g) (g_subs g) (g_mode g) (g_meta g) = Ok w /\
            wf_ragged (snd w).
Proof.
  intros g Hwf. destruct (rcreate_rel g Hwf) as (w & Hc & HR). exists w. split; [exact Hc|].
  exact (rrel_wf_ragged _ _ HR).
Qed.
Print Assumptions C05_created.

(* a reader using only the files obtains subarray k as values[start_k:end_k] *)
Theorem C05_file_only_reader : forall w g, RRel w g ->
  forall k, rgetitem (fst w) (snd w) (Some k) =
            match g_getitem g k with Some sub => Ok (concat sub) | None => Err IndexError end.
Proof. intros w g HR. exact (proj2 (rgetitem_spec w g HR)). Qed.
Print Assumptions C05_file_only_reader.

Example C05_chain_example :
  chain_ok 0 [(0,2);(2,2);(2,5)] = Some 5 /\ chain_ok 0 [(0,2);(3,5)] = None /\
  chain_ok 0 [(1,2)] = None /\ chain_ok 0 [(0,2);(2,1)] = None.
Proof. vm_compute. repeat split. Qed.
