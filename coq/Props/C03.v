(* C03 -- Array histories of append/assign/truncate equal the NumPy model and persist.
   Property theorems only (over the hand-written model ArrayModel.v, tied to
   darr/array.py by the correspondence check of harness/p03.py). *)
From Coq Require Import ZArith List Bool.
From Darr Require Import Base ArrayModel Spec Proofs.ArrayRefine Proofs.ArrayHist.
Import ListNotations.
Open Scope Z_scope.

(* Every history: the outcome of every step and the resulting state (dtype, shape,
   len, contents, on disk and in the live handle) are those of the NumPy model *)
Theorem C03_refines : forall os w s,
  Rel w s -> wf_ops s os ->
  run_outs w os = spec_outs s os /\ Rel (run w os) (spec_run s os).
Proof. exact run_refines. Qed.
Print Assumptions C03_refines.

(* ... and a freshly opened handle reports the same state as the live one *)
Theorem C03_fresh_agrees : forall w s m, Rel w s ->
  open_dir (snd w) m = Ok (mkHandle m (h_nt (fst w)) (h_bo (fst w)) (h_shape (fst w))) /\
  view_of (snd w) = Some (s_nt s, s_bo s, s_shape s, concat (s_rows s)).
Proof. exact fresh_agrees. Qed.
Print Assumptions C03_fresh_agrees.

Theorem C03_append_prefix_stable : forall w s cs, Rel w s -> wf_op s (OpIterAppend cs) ->
  exists old tail_, a_data (snd w) = Some old /\
                    a_data (snd (snd (step w (OpIterAppend cs)))) = Some (old ++ tail_).
Proof. exact append_prefix_stable. Qed.
Print Assumptions C03_append_prefix_stable.

Theorem C03_truncate_keeps_prefix : forall w s idx, Rel w s ->
  exists old n, a_data (snd w) = Some old /\
                a_data (snd (snd (step w (OpTruncate idx)))) = Some (firstn n old).
Proof. exact truncate_keeps_prefix. Qed.
Print Assumptions C03_truncate_keeps_prefix.

Theorem C03_rejected_unchanged : forall w s o, Rel w s -> wf_op s o ->
  (exists i, o = OpTruncate i) \/ (exists x, o = OpSetItem x) \/ (exists c, o = single_append c) ->
  is_ok (fst (step w o)) = false -> Rel (snd (step w o)) s.
Proof. exact rejected_unchanged. Qed.
Print Assumptions C03_rejected_unchanged.

Theorem C03_rejections : forall s,
  s_mode s = RW ->
  (forall t rows, t <> s_tail s -> fst (spec_step s (single_append (CGood t rows))) = false) /\
  fst (spec_step s (OpTruncate None)) = false /\
  (forall i, ~ (0 <= slice_len i (s_len s) < s_len s) -> fst (spec_step s (OpTruncate (Some i))) = false) /\
  (forall i, 0 <= slice_len i (s_len s) < s_len s -> fst (spec_step s (OpTruncate (Some i))) = true).
Proof. exact rejections. Qed.
Print Assumptions C03_rejections.

(* non-vacuity: a concrete int16 (2,2) array satisfies Rel, and a mixed history runs *)
Definition ex_s : sarr := mkSarr Int16 Little OrdC [2] [[1;0;2;0]; [3;0;4;0]] RW false.
Definition ex_w : world :=
  (mkHandle RW Int16 Little [2;2],
   mkDir (Some [1;0;2;0;3;0;4;0]) (Val (mkDescr Int16 Little [2;2] OrdC))
         (Val (mkDescr Int16 Little [2;2] OrdC, false)) false).
Example C03_rel_example : Rel ex_w ex_s.
Proof. unfold Rel, ex_w, ex_s; cbn. repeat split; try reflexivity; repeat constructor. Qed.
Example C03_history_example :
  let os := [OpIterAppend [CGood [2] [[5;0;6;0]]; CGood [3] [[9;9;9;9;9;9]]];
             OpTruncate (Some (-1)); OpSetItem (Some [(2, [7;7])]); OpTruncate (Some 5)] in
  wf_ops ex_s os /\ run_outs ex_w os = [false; true; true; false] /\
  a_data (snd (run ex_w os)) = Some [1;0;7;7;3;0;4;0].
Proof. cbn. repeat split; repeat constructor; intros; try discriminate; repeat constructor. Qed.
