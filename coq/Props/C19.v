(* C19 -- interleaved iterators / contexts on one Array are memory-safe and coherent. *)
From Coq Require Import ZArith List Bool.
From Darr Require Import Base Gen_frames Sched Proofs.SchedProofs.
Import ListNotations.
Open Scope Z_scope.

(* For ANY sequence of actions -- creating iterchunks generators with any parameters,
   advancing, closing or abandoning them in any order, entering and leaving open_array()
   contexts, reading and writing elements, and changing the length of the array (append /
   truncate, also inside contexts) -- of any length, with any number of generators and
   contexts: no step reads through a closed memory map or beyond the present end of the file
   (OCrash never occurs), and the protocol invariant (exact user count; the cached map exists
   only while it has users, is then the only open map and is mapped at exactly the present
   length; otherwise nothing is open) is maintained. *)
Theorem C19_safe : forall acts n k,
  SInv (snd (sched_run (sched_init n k) acts)) /\ ~ In OCrash (fst (sched_run (sched_init n k) acts)).
Proof. intros acts n k. apply sched_run_safe. apply sinv_init. Qed.
Print Assumptions C19_safe.

(* once all generators and contexts are finished, no map and no file handle is open *)
Theorem C19_no_leak : forall s, SInv s -> count_active (sc_gens s) = 0%nat -> sc_ctx s = [] ->
  sc_cache s = None /\ sc_open s = [] /\ sc_users s = 0%nat.
Proof. exact no_leak. Qed.
Print Assumptions C19_no_leak.

(* coherence: a chunk is read through the object's current map at the moment it is returned,
   so it shows every write made before and is a[frame] for the length the array has NOW;
   stated on the step function *)
Theorem C19_chunk_is_current : forall s g a b rest,
  SInv s -> nth_error (sc_gens s) g = Some (GActive ((a, b) :: rest)) ->
  fst (sched_step s (AAdvance g)) =
    OChunk (Z.min a (sc_len s)) (Z.min b (sc_len s)) (chunk_obs (sc_data s) (Z.min a (sc_len s)) (Z.min b (sc_len s))).
Proof. intros s g a b rest HI En. cbn [sched_step]. rewrite En. exact (advance_chunk s g a b rest HI En). Qed.
Print Assumptions C19_chunk_is_current.

(* the schedule that killed the interpreter on the pinned tree: g1 opens the map, g2
   joins, g1 is exhausted, g2 advances -- safe under the counting protocol *)
Example C19_regression :
  let acts := [AStart 4 None None None true; AStart 3 None None None true; AAdvance 0; AAdvance 1;
               AAdvance 0; AAdvance 0; AAdvance 0; AAdvance 1; AWrite 7 99; AAdvance 1; AAdvance 1; AAdvance 1] in
  fst (sched_run (sched_init 10 2) acts) =
    [ONothing; ONothing; OChunk 0 4 [0;2;3]; OChunk 0 3 [0;1;2]; OChunk 4 8 [4;6;7]; OChunk 8 10 [8;9;9]; OStop;
     OChunk 3 6 [3;4;5]; ONothing; OChunk 6 9 [6;99;8]; OChunk 9 10 [9;9;9]; OStop] /\
  sc_open (snd (sched_run (sched_init 10 2) acts)) = [].
Proof. vm_compute. split; reflexivity. Qed.

(* the length changes inside a context while a generator is active: every reader goes through the
   renewed map, and in the end nothing is open *)
Example C19_resize :
  let acts := [AEnter; AStart 4 None None None true; AAdvance 0; AResize 12; ARead 3; AWrite 11 5; AAdvance 0;
               ARead 11; AExit; AAdvance 0; AAdvance 0] in
  fst (sched_run (sched_init 10 1) acts) =
    [ONothing; ONothing; OChunk 0 4 [0;2;3]; ONothing; OValue 3; ONothing; OChunk 4 8 [4;6;7]; OValue 5; ONothing;
     OChunk 8 10 [8;9;9]; OStop] /\
  sc_open (snd (sched_run (sched_init 10 1) acts)) = [] /\ sc_len (snd (sched_run (sched_init 10 1) acts)) = 12.
Proof. vm_compute. repeat split; reflexivity. Qed.

(* the array is truncated while a generator runs (this killed the interpreter with a bus error on
   the pinned tree: the generator went on reading its old, longer map): the remaining frames are
   clipped to the new length *)
Example C19_shrink :
  let acts := [AStart 4 None None None true; AAdvance 0; AResize 6; AAdvance 0; AAdvance 0; AAdvance 0] in
  fst (sched_run (sched_init 10 1) acts) =
    [ONothing; OChunk 0 4 [0;2;3]; ONothing; OChunk 4 6 [4;5;5]; OChunk 6 6 []; OStop] /\
  sc_open (snd (sched_run (sched_init 10 1) acts)) = [].
Proof. vm_compute. repeat split; reflexivity. Qed.
