(* C19 -- interleaved iterators / contexts on one Array are memory-safe and coherent. *)
From Coq Require Import ZArith List Bool.
From Darr Require Import Base Gen_frames Sched Proofs.SchedProofs.
Import ListNotations.
Open Scope Z_scope.

(* For ANY sequence of actions -- creating iterchunks generators with any parameters,
   advancing, closing or abandoning them in any order, entering and leaving open_array()
   contexts, reading and writing elements -- of any length, with any number of generators
   and contexts: no step touches a closed memory map (OCrash never occurs), and the
   protocol invariant (the cached map exists exactly while it has users, is the only open
   one, and is the map every user holds) is maintained. *)
Theorem C19_safe : forall acts n k,
  SInv (snd (sched_run (sched_init n k) acts)) /\ ~ In OCrash (fst (sched_run (sched_init n k) acts)).
Proof. intros acts n k. apply sched_run_safe. apply sinv_init. Qed.
Print Assumptions C19_safe.

(* once all generators and contexts are finished, no map and no file handle is open *)
Theorem C19_no_leak : forall s, SInv s -> count_active (sc_gens s) = 0%nat -> sc_ctx s = [] ->
  sc_cache s = None /\ sc_open s = [] /\ sc_users s = 0%nat.
Proof. exact no_leak. Qed.
Print Assumptions C19_no_leak.

(* coherence: a chunk is read through the one shared map at the moment it is returned,
   so it shows every write made before; stated on the step function *)
Theorem C19_chunk_is_current : forall s g m a b rest,
  SInv s -> nth_error (sc_gens s) g = Some (GActive m ((a, b) :: rest)) ->
  fst (sched_step s (AAdvance g)) = OChunk a b (chunk_obs (sc_data s) a b).
Proof.
  intros s g m a b rest [Hu Hc] En. cbn [sched_step]. rewrite En. unfold advance_active.
  destruct (sc_cache s) as [m0|] eqn:Ecache.
  - destruct Hc as (_ & Hop & Hg & _). rewrite Forall_forall in Hg. pose proof (Hg _ (nth_error_In _ _ En)) as Hm.
    cbn in Hm. subst m0. rewrite Hop. cbn. rewrite Nat.eqb_refl. reflexivity.
  - exfalso. destruct Hc as (H0 & _).
    assert ((0 < count_active (sc_gens s))%nat).
    { clear - En. revert g En. induction (sc_gens s) as [|y l IH]; intros g En; destruct g; cbn in *; try discriminate.
      - inversion En; subst. cbn. auto with arith.
      - specialize (IH _ En). destruct (active y); auto with arith. }
    rewrite H0 in Hu. destruct (count_active (sc_gens s)); [inversion H|discriminate].
Qed.
Print Assumptions C19_chunk_is_current.

(* the schedule that killed the interpreter on the pinned tree: g1 opens the map, g2
   joins, g1 is exhausted, g2 advances -- safe under the counting protocol *)
Example C19_regression :
  let acts := [AStart 4 None None None true; AStart 3 None None None true; AAdvance 0; AAdvance 1;
               AAdvance 0; AAdvance 0; AAdvance 0; AAdvance 1; AWrite 7 99; AAdvance 1; AAdvance 1; AAdvance 1] in
  fst (sched_run (sched_init 10 2) acts) =
    [ONothing; ONothing; OChunk 0 4 [0;2;3]; OChunk 0 3 [0;1;2]; OChunk 4 8 [4;6;7]; OChunk 8 10 [8;9;9]; OStop;
     OChunk 3 6 [3;4;5]; ONothing; OChunk 6 9 [6;99;8]; OChunk 9 10 [9;9;9]; OStop] /\
  sc_open (snd (sched_run (sched_init 10 2) acts)) = [].
Proof. vm_compute. split; reflexivity. Qed.
