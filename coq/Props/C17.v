(* C17 -- a process crash at any point never makes Darr return wrong data. *)
From Coq Require Import ZArith List Bool.
From Darr Require Import Base ArrayModel RaggedModel Spec Crash Proofs.ArrayRefine Proofs.ArrayHist Proofs.CrashSafe
     Proofs.RaggedBase Proofs.RaggedRefine Proofs.RaggedProps Proofs.RCrashSafe
     Skel Gen_effects EffectOrder Proofs.SkelProofs EffectOrderR Proofs.SkelRProofs Proofs.SkelTeeth Proofs.SkelExact.
Import ListNotations.
Open Scope Z_scope.

(* crash d es st  (Crash.v): st is the directory a crash can leave while the effect list
   es runs from d -- between two effects, or with the effect in progress torn (a data
   write/append arrived as ANY prefix; a description / README being rewritten is emptied
   or partly written, hence not parseable (H-json-prefix); truncate is atomic).
   view_of st = None: opening st raises.

   Array.append / iterappend, INCLUDING its error-recovery path (any fault plan: raising
   iterable, bad shape, unconvertible item, write failure after any k bytes) and the
   separate first-chunk path of arrays that start empty: every crash state either does
   not open, or opens showing the original rows followed by a whole number of the chunks
   that were being appended. *)
Theorem C17_append_crash_safe : forall h d s cs r h' es st,
  Rel (h, d) s -> Forall (wf_chunk s) cs ->
  iterappend h d cs = (r, h', es) -> crash d es st ->
  view_of st = None \/ exists v, view_of st = Some v /\ legit_append s cs v.
Proof. exact iterappend_crash. Qed.
Print Assumptions C17_append_crash_safe.

(* truncate_array: every crash state does not open, or shows the state before or after *)
Theorem C17_truncate_crash_safe : forall h d s idx r h' es st,
  Rel (h, d) s -> truncate h d idx = (r, h', es) -> crash d es st ->
  view_of st = None \/ view_of st = Some (view_rows s (s_rows s)) \/
  view_of st = Some (view_rows s (s_rows (snd (spec_step s (OpTruncate idx))))).
Proof. exact truncate_crash. Qed.
Print Assumptions C17_truncate_crash_safe.

(* RaggedArray: rcrash / rtorn lift crash / torn to the directory with its two
   sub-arrays and top-level files; rview_of st = what RaggedArray(st) shows (None: it
   raises; otherwise dtype, atom and every subarray, read through the index rows).
   append / iterappend incl. the recovery path (any fault plan: raising iterable, wrong
   atom, unconvertible item, index overflow, values or index-row write stopped after any
   number of bytes): every crash state does not open, or shows the subarrays before, or
   the subarrays before followed by all items that were appended completely. *)
Theorem C17_ragged_append_crash_safe : forall h d g its r h' es st,
  RRel (h, d) g -> Forall (wf_ritem g) its ->
  riterappend h d its = (r, h', es) -> rcrash d es st ->
  rview_of st = None \/ rview_of st = rview_g g \/ rview_of st = rview_g (after_append g its).
Proof. exact riterappend_crash. Qed.
Print Assumptions C17_ragged_append_crash_safe.

(* truncate_raggedarray: every crash state does not open, or shows exactly the subarrays
   of the state before or of the state after (the state between the two halves -- indices
   already shortened, values not yet -- shows the after-state's subarrays) *)
Theorem C17_ragged_truncate_crash_safe : forall h d g idx r h' es st,
  RRel (h, d) g -> rtruncate h d idx = (r, h', es) -> rcrash d es st ->
  rview_of st = None \/ rview_of st = rview_g g \/
  rview_of st = rview_g (snd (rspec_step g (ROpTruncate idx))).
Proof. exact rtruncate_crash. Qed.
Print Assumptions C17_ragged_truncate_crash_safe.

(* the states the tracing harness observes between executed source lines are crash states *)
Theorem C17_traced_states_are_crash_states : forall es d s, In s (trace_states d es) -> crash d es s.
Proof. exact crash_trace. Qed.
Print Assumptions C17_traced_states_are_crash_states.

(* ---- the ORDER of file effects, tied to the source by the translator ----
   Gen_effects.v holds the control skeletons of Array._update_arrayinfo, _update_len,
   _append, iterappend and truncate_array as gen/py2v.py reads them from darr/array.py on
   every run (calls from a fixed effect vocabulary, with the if / for / try / with structure
   around them; everything else dropped).  aruns s o ks (Skel.v, EffectOrder.v): the
   skeleton s admits a run with outcome o performing the effect kinds ks in this order
   (conditions go either way, loops run any number of times, any statement may raise, a
   primitive call may raise after part of its effects).
   The crash theorems above are about the model's effect logs; these theorems say that the
   log of EVERY call of the model (every state, every fault plan) is, kind by kind and in
   order, a run of the skeleton of the present source -- so "data file first, then
   description, then README; recovery: description, README, then cut the file; truncate: cut
   the file, then description, README" is what the code says now.  A reordered step, a
   dropped or an added effect call in these functions changes Gen_effects.v and these
   proofs no longer check. *)
Theorem C17_append_order_from_source : forall h d cs r h' es,
  iterappend h d cs = (r, h', es) ->
  exists o, oc_match r o /\ aruns sk_iterappend o (map kind_of es).
Proof. exact iterappend_runs. Qed.
Print Assumptions C17_append_order_from_source.

Theorem C17_truncate_order_from_source : forall h d idx r h' es,
  truncate h d idx = (r, h', es) ->
  exists o, oc_match r o /\ aruns sk_truncate_array o (map kind_of es).
Proof. exact truncate_runs. Qed.
Print Assumptions C17_truncate_order_from_source.

Theorem C17_update_len_order_from_source : forall h d inc h' es,
  update_len h d inc = Ok (h', es) -> aruns sk_update_len Normal (map kind_of es).
Proof. exact update_len_runs. Qed.
Print Assumptions C17_update_len_order_from_source.

Theorem C17_append_chunk_order_from_source : forall h c es r,
  append_one h c = (es, r) ->
  runs fdprim nosub sk_append (match r with Some _ => Returned | None => Raised end) (map kind_of es).
Proof. exact append_one_runs. Qed.
Print Assumptions C17_append_chunk_order_from_source.

(* truncate_raggedarray: indices/ is cut first (data file, description, README of that
   sub-array), then values/ when something is left to cut, then the top-level README and
   description -- as the skeleton of the present darr/raggedarray.py says, with the calls
   tagged by the sub-array they are made on ("truncate_array@_indices").  A call on a
   sub-array contributes the effects the Array theorem above gives it, or a prefix of
   them when it raises. *)
Theorem C17_ragged_truncate_order_from_source : forall h d idx r h' es,
  rtruncate h d idx = (r, h', es) ->
  exists o, oc_match r o /\ rruns sk_truncate_raggedarray o (map rkind_of es).
Proof. exact rtruncate_runs. Qed.
Print Assumptions C17_ragged_truncate_order_from_source.

(* RaggedArray.iterappend: per item values/ then indices/ (RaggedArray._append, expanded
   from its own generated skeleton); on failure both data files are cut (values, then
   indices: the literal loop of the handler unrolled), then _update_lens; _update_lens:
   values description + README, indices description + README, top-level description,
   top-level README -- every fault plan (raising iterable, wrong atom, unconvertible
   item, index overflow, either write stopped after any number of bytes). *)
Theorem C17_ragged_append_order_from_source : forall h d its r h' es,
  riterappend h d its = (r, h', es) ->
  exists o, oc_match r o /\ rruns sk_ragged_iterappend o (map rkind_of es).
Proof. exact riterappend_runs. Qed.
Print Assumptions C17_ragged_append_order_from_source.

Theorem C17_ragged_update_lens_order_from_source : forall h d vinc iinc h' es,
  update_lens h d vinc iinc = Ok (h', es) -> rruns sk_ragged_update_lens Normal (map rkind_of es).
Proof. exact update_lens_runs. Qed.
Print Assumptions C17_ragged_update_lens_order_from_source.

(* non-vacuity: the recovery path of a two-chunk append whose second chunk is refused *)
Example C17_order_example :
  match iterappend (mkHandle RW Int16 Little [1])
          (mkDir (Some [1;0]) (Val (mkDescr Int16 Little [1] OrdC)) (Val (mkDescr Int16 Little [1] OrdC, false)) false)
          [CGood [] [[2;0]]; CGood [3] []] with
  | (r, _, es) => r = Err AppendDataError /\ map kind_of es = [KAppend; KDescr; KReadme; KTrunc]
  end.
Proof. cbn. split; reflexivity. Qed.

(* The other direction, for the loop-free functions: EVERY run of the present source's
   skeleton that completes (returns or falls off the end) performs exactly these effects
   in exactly this order -- the data file is cut first, then the description, then the
   README; for a ragged array indices/ first, then values/ (or nothing when only empty
   subarrays go), then the top-level README and description.  With the theorems above:
   the logs of the model are runs of the source, and the completed runs of the source
   are the logs of the model. *)
Theorem C17_truncate_exact_from_source : forall o ks,
  aruns sk_truncate_array o ks -> o <> Raised -> ks = [KTrunc; KDescr; KReadme].
Proof. exact truncate_array_exact. Qed.
Print Assumptions C17_truncate_exact_from_source.

Theorem C17_ragged_truncate_exact_from_source : forall o ks,
  rruns sk_truncate_raggedarray o ks -> o <> Raised ->
  ks = map KI [KTrunc; KDescr; KReadme] ++ map KV [KTrunc; KDescr; KReadme] ++ [KRReadme; KRDescr] \/
  ks = map KI [KTrunc; KDescr; KReadme] ++ [KRReadme; KRDescr].
Proof. exact truncate_raggedarray_exact. Qed.
Print Assumptions C17_ragged_truncate_exact_from_source.

(* the skeleton semantics discriminates: a truncate_array that rewrote the description
   before cutting the file, and a truncate_raggedarray that cut values/ before indices/
   (seeded change C17-m27), would NOT admit the logs of the model
   (sk_swapped_truncate = _update_len; truncate,  sk_values_first = truncate_array@_values;
   truncate_array@_indices, Proofs/SkelTeeth.v) *)
Example C17_order_semantics_discriminates :
  (~ aruns sk_swapped_truncate Normal [KTrunc; KDescr; KReadme]) /\
  (~ rruns sk_values_first Normal
           (map KI [KTrunc; KDescr; KReadme] ++ map KV [KTrunc; KDescr; KReadme])).
Proof. exact (conj swapped_truncate_not_admitted ragged_values_first_not_admitted). Qed.

(* non-vacuity: a torn second chunk and a torn descriptor *)
Definition ex_s : sarr := mkSarr Int16 Little OrdC [] [[1;0]] RW false.
Definition ex_d : adir :=
  mkDir (Some [1;0]) (Val (mkDescr Int16 Little [1] OrdC)) (Val (mkDescr Int16 Little [1] OrdC, false)) false.
Example C17_example :
  let cs := [CGood [] [[2;0]]; CGood [] [[3;0];[4;0]]] in
  match iterappend (mkHandle RW Int16 Little [1]) ex_d cs with
  | (_, _, es) =>
      crash ex_d es (mkDir (Some [1;0;2;0;3]) (a_descr ex_d) (a_readme ex_d) false) /\
      view_of (mkDir (Some [1;0;2;0;3]) (a_descr ex_d) (a_readme ex_d) false) = None /\
      crash ex_d es (mkDir (Some [1;0;2;0;3;0;4;0]) Torn (a_readme ex_d) false) /\
      length (trace_states ex_d es) = 6%nat
  end.
Proof.
  cbn. repeat split.
  - apply crash_later. apply crash_torn. apply (torn_append _ [3] [0;4;0]). reflexivity.
  - apply crash_later, crash_later, crash_torn. constructor.
Qed.
