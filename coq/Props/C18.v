(* C18 -- inconsistent or invalid array descriptions are rejected at open time. *)
From Coq Require Import ZArith List Bool String Lia.
From Darr Require Import Base ArrayModel Json Gen_tables Gen_gate.
From Coq Require Import ZifyBool.
Import ListNotations.
Open Scope Z_scope.

Definition str_eq (a b : string) := String.eqb a b = true.

(* If Array(path) succeeds then arraydescription.json exists, is a JSON dictionary with
   the required keys, names one of the 13 numeric types, a byte order in {little, big},
   an array order in {C, F}, its shape is a sequence of non-negative ints and shape x
   item size EQUALS the length of arrayvalues.bin.  Contrapositive: each listed
   corruption makes the open raise. *)
Theorem C18_open_sound : forall f data m h,
  open_json f data m = Ok h ->
  exists kv nts bos aos shj ver t bs,
    f = JFile (JDict kv) /\
    jlookup "numtype" kv = Some (JStr nts) /\ numtype_of_name nts = Some t /\
    jlookup "byteorder" kv = Some (JStr bos) /\ (bos = "little" \/ bos = "big")%string /\
    jlookup "arrayorder" kv = Some (JStr aos) /\ (aos = "C" \/ aos = "F")%string /\
    jlookup "darrversion" kv = Some (JStr ver) /\
    jlookup "shape" kv = Some shj /\ shape_of shj = Ok (h_shape h, false) /\
    Forall (fun x => 0 <= x) (h_shape h) /\
    data = Some bs /\ Z.of_nat (List.length bs) = prodZ (h_shape h) * itemsize t /\ h_nt h = t.
Proof.
  intros f data m h H. unfold open_json in H.
  destruct (read_descr f) as [[ds hb]|e] eqn:R; [|discriminate].
  destruct data as [bs|]; [|discriminate].
  destruct (Z.of_nat (List.length bs) =? prodZ (d_shape ds) * itemsize (d_nt ds)) eqn:Esz; [|discriminate].
  cbn [negb] in H.
  destruct (hb || negb (forallb (fun x => 0 <=? x) (d_shape ds))) eqn:Enp; [discriminate|].
  inversion H; subst h; clear H. apply orb_false_iff in Enp. destruct Enp as [-> Enp].
  apply negb_false_iff in Enp. apply Z.eqb_eq in Esz.
  unfold read_descr in R.
  destruct f as [| |j]; try discriminate. destruct j as [| | | | | |kv]; try discriminate.
  destruct (jlookup "numtype" kv) as [nt|] eqn:Lnt; [|discriminate].
  destruct (jlookup "shape" kv) as [shj|] eqn:Lsh; [|discriminate].
  destruct (jlookup "arrayorder" kv) as [ao|] eqn:Lao; [|discriminate].
  destruct (jlookup "darrversion" kv) as [ver|] eqn:Lver; [|discriminate].
  destruct ver as [| | | |vs| |]; try discriminate.
  destruct (shape_of shj) as [[shape hasbool]|e] eqn:Esh; [|discriminate].
  destruct (jlookup "byteorder" kv) as [bo|] eqn:Lbo; [|discriminate].
  destruct nt as [| | | |nts| |]; try discriminate.
  destruct (numtype_of_name nts) as [t|] eqn:Ent; [|discriminate].
  destruct bo as [| | | |bos| |]; try discriminate.
  destruct (String.eqb bos "little" || String.eqb bos "big") eqn:Ebo; [|discriminate].
  destruct ao as [| | | |aos| |]; try discriminate.
  destruct (String.eqb aos "C" || String.eqb aos "F") eqn:Eao; [|discriminate].
  inversion R; subst ds hasbool; clear R. cbn [d_shape d_nt d_bo h_shape h_nt] in *.
  exists kv, nts, bos, aos, shj, vs, t, bs.
  repeat split; try assumption; try reflexivity.
  - apply orb_true_iff in Ebo. destruct Ebo as [E|E]; apply String.eqb_eq in E; [left|right]; exact E.
  - apply orb_true_iff in Eao. destruct Eao as [E|E]; apply String.eqb_eq in E; [left|right]; exact E.
  - apply Forall_forall. intros x Hx. rewrite forallb_forall in Enp. specialize (Enp x Hx). apply Z.leb_le in Enp. exact Enp.
Qed.
Print Assumptions C18_open_sound.

(* The size test as the present source spells it (tie by translation): Gen_gate.size_gate is
   Array._check_arrayinfoconsistency read from darr/array.py on every run as a function of
   the shape in the description, the item size of its dtype and the size of the data file.
   It accepts exactly when the file size EQUALS prod(shape) x item size -- for all shapes,
   item sizes and file sizes -- and it is the test the model of Array(path) applies.  A
   loosened comparison (a floor division, an inequality, a tolerance) changes Gen_gate.v
   and these no longer check. *)
Theorem C18_size_gate_from_source : forall shape isz fsz,
  size_gate shape isz fsz = true <-> fsz = prodZ shape * isz.
Proof. intros shape isz fsz. unfold size_gate. split; intro H; lia. Qed.
Print Assumptions C18_size_gate_from_source.

Theorem C18_model_gate_is_source_gate : forall ds (bs : list Z),
  size_gate (d_shape ds) (itemsize (d_nt ds)) (Z.of_nat (List.length bs)) =
  (Z.of_nat (List.length bs) =? prodZ (d_shape ds) * itemsize (d_nt ds)).
Proof. intros ds bs. unfold size_gate. lia. Qed.
Print Assumptions C18_model_gate_is_source_gate.

Example C18_size_gate_example :
  size_gate [2; 3] 4 24 = true /\ size_gate [2; 3] 4 25 = false /\ size_gate [2; 3] 4 27 = false /\
  size_gate [0; 3] 8 0 = true /\ size_gate [0; 3] 8 1 = false.
Proof. vm_compute. repeat split. Qed.

(* too short or too long BY ANY AMOUNT is rejected (the test is an equality) *)
Theorem C18_size_mismatch_rejected : forall f bs m ds hb,
  read_descr f = Ok (ds, hb) ->
  Z.of_nat (List.length bs) <> prodZ (d_shape ds) * itemsize (d_nt ds) ->
  exists e, open_json f (Some bs) m = Err e.
Proof.
  intros f bs m ds hb R Hne. unfold open_json. rewrite R.
  destruct (Z.of_nat (List.length bs) =? prodZ (d_shape ds) * itemsize (d_nt ds)) eqn:E.
  - apply Z.eqb_eq in E. contradiction.
  - eexists. reflexivity.
Qed.
Print Assumptions C18_size_mismatch_rejected.

(* darr.open() never succeeds where Array() fails; delete/truncate by path refuse with
   TypeError, without running the operation, whatever the operation is *)
Theorem C18_darr_open_sound : forall f data m h, darr_open f data m = Ok h -> open_json f data m = Ok h.
Proof.
  intros f data m h H. unfold darr_open in H.
  destruct f as [| |j]; try discriminate. destruct j as [| | | | | |kv]; try discriminate.
  destruct (jlookup "darrobject" kv) as [[| | | |s| |]|]; try discriminate.
  destruct (String.eqb s "Array"); [exact H|discriminate].
Qed.
Print Assumptions C18_darr_open_sound.

Theorem C18_by_path_refuses : forall A f data (op : handle -> res A) e,
  open_json f data RW = Err e -> by_path f data op = Err TypeError.
Proof. intros A f data op e H. unfold by_path. rewrite H. reflexivity. Qed.
Print Assumptions C18_by_path_refuses.

(* the key set and the type names the code uses are the GENERATED ones *)
Theorem C18_tables :
  requiredkeys = ["arrayorder"; "darrversion"; "numtype"; "shape"]%string /\
  forall s, numtype_of_name s <> None <-> In s numtypes_keys.
Proof.
  split; [vm_compute; reflexivity|]. intros s. unfold numtype_of_name. split.
  - intros H. destruct (find (fun t => String.eqb (numtype_name t) s) all_numtypes) as [t|] eqn:E; [|contradiction].
    apply find_some in E. destruct E as [_ E]. apply String.eqb_eq in E. subst s.
    destruct t; vm_compute; tauto.
  - intros H. vm_compute in H.
    repeat (destruct H as [<-|H]; [vm_compute; discriminate|]). contradiction.
Qed.
Print Assumptions C18_tables.

(* non-vacuity *)
Example C18_example :
  let kv := [("numtype", JStr "int16"); ("byteorder", JStr "big"); ("shape", JList [JInt 2; JInt 1]);
             ("arrayorder", JStr "C"); ("darrversion", JStr "0.6"); ("darrobject", JStr "Array")]%string in
  open_json (JFile (JDict kv)) (Some [0;1;0;2]) R = Ok (mkHandle R Int16 Big [2;1]) /\
  open_json (JFile (JDict kv)) (Some [0;1;0;2;9]) R = Err ValueError /\
  open_json (JFile (JDict (("shape", JList [JInt (-2); JInt (-1)]) :: kv)%string)) (Some [0;1;0;2]) R = Err ValueError /\
  open_json (JFile (JList [])) (Some []) R = Err TypeError.
Proof. vm_compute. repeat split. Qed.
