(* C06 -- generated read code for Arrays denotes the stored array in every language.
   Statements only; proofs are in Proofs/ReadcodeProofs.v.  The type and byte-order tables the
   statements quantify over (Gen_tables.v) are regenerated from darr/readcodearray.py and
   docs/readcode.rst on every run. *)
From Coq Require Import ZArith List Bool String.
From Darr Require Import Base ArrayModel Codec Gen_tables Readcode Proofs.ReadcodeProofs.
Import ListNotations.
Open Scope Z_scope.
Open Scope string_scope.

(* For every language, numeric type, byte order, shape of ANY rank and extents, and any element
   values: if code is offered, its documented meaning applied to the data file (the elements
   encoded per the format, C02) is defined and yields exactly the stored element at every index --
   axes as stored for a row-major language, reversed for a column-major one -- with the stored
   numeric type and the (reversed) stored dimensions. *)
Theorem C06_denote : forall l nt bo shape elems fp v p,
  In l array_languages -> shape <> [] ->
  Z.of_nat (List.length elems) = prodZ shape -> sized nt elems ->
  plan_of l nt shape bo fp v false = Some p ->
  exists r, denote p (nt, bo) (encode nt bo elems) = Some r /\ represents l nt shape elems r.
Proof. exact denote_correct. Qed.
Print Assumptions C06_denote.

(* the index arithmetic behind "reversed": for any rank *)
Theorem C06_rev_axes : forall dims idx, List.length dims = List.length idx ->
  colmajor_off (rev dims) (rev idx) = rowmajor_off dims idx 0.
Proof. exact rev_axes. Qed.
Print Assumptions C06_rev_axes.

(* code is offered or withheld per language, type and rank exactly as the two documented tables say *)
Theorem C06_offered : forall l nt shape bo fp v, In l array_languages -> shape <> [] ->
  is_some (plan_of l nt shape bo fp v false) = doc_offered l nt (len shape).
Proof. exact offered_as_documented. Qed.
Print Assumptions C06_offered.

(* readcodelanguages lists precisely the offered ones *)
Theorem C06_languages : forall nt shape bo l, shape <> [] ->
  (In l (readcodelanguages nt shape bo) <-> In l array_languages /\ doc_offered l nt (len shape) = true).
Proof. exact readcodelanguages_spec. Qed.
Print Assumptions C06_languages.

(* every token a composer takes from the tables means the stored type / byte order in its language *)
Theorem C06_tokens : forall l nt bo ig t, In l array_languages -> l <> "darr" ->
  toks_of l nt bo ig = Some t -> toks_ok l nt bo t = true.
Proof. exact toks_of_ok. Qed.
Print Assumptions C06_tokens.

(* the program names the requested file, and no program opens it in a writing mode *)
Theorem C06_path : forall l nt shape bo fp v ig p, plan_of l nt shape bo fp v ig = Some p -> p_path p = fp /\ p_var p = v.
Proof. exact plan_path. Qed.
Print Assumptions C06_path.
Theorem C06_readonly : forall l nt shape bo fp v ig p, In l array_languages ->
  plan_of l nt shape bo fp v ig = Some p -> writes p = false.
Proof. exact no_program_writes. Qed.
Print Assumptions C06_readonly.

(* Scilab's complex work-around indexes a leading axis of length 2: that is the even / odd split *)
Theorem C06_scilab_pair_axis : forall t dims fl idx, in_range dims idx = true ->
  aget (mkA t (2 :: dims) ColMajor fl) (0 :: idx) = aget (mkA t dims ColMajor (evens fl)) idx /\
  aget (mkA t (2 :: dims) ColMajor fl) (1 :: idx) = aget (mkA t dims ColMajor (odds fl)) idx.
Proof. exact scilab_pair_axis. Qed.
Print Assumptions C06_scilab_pair_axis.

(* non-vacuity: a big-endian complex64 array of shape (2, 3) read by the Matlab program (two strided
   passes) -- the value at Matlab index (3, 2), i.e. stored index (1, 2), is the sixth element *)
Definition ex_elems : list (list Z) := map (fun k => [k; 1; 2; 3; 10 + k; 5; 6; 7]) [1; 2; 3; 4; 5; 6].
Example C06_nonvacuous :
  match plan_of "matlab" Complex64 [2; 3] Big "arrayvalues.bin" "a" false with
  | Some p => match denote p (Complex64, Big) (encode Complex64 Big ex_elems) with
              | Some (DArr a) => aget a [2; 1] = Some [6; 1; 2; 3; 16; 5; 6; 7] /\ a_dims a = [3; 2]
              | _ => False end
  | None => False end.
Proof. vm_compute. split; reflexivity. Qed.
Example C06_nonvacuous_withheld :
  plan_of "R" UInt32 [4] Little "arrayvalues.bin" "a" false = None /\
  plan_of "python" Float64 [2; 2] Little "arrayvalues.bin" "a" false = None /\
  is_some (plan_of "python" Float64 [4] Little "arrayvalues.bin" "a" false) = true.
Proof. vm_compute. repeat split; reflexivity. Qed.
