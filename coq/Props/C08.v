(* C08 -- README.txt documentation is current after every operation. *)
From Coq Require Import ZArith List Bool.
From Darr Require Import Base ArrayModel RaggedModel Spec
     Proofs.ArrayRefine Proofs.ArrayHist Proofs.Create Proofs.RaggedBase Proofs.RaggedRefine Proofs.RaggedProps
     Skel Gen_effects EffectOrder EffectOrderR Proofs.SkelExact.
Import ListNotations.
Open Scope Z_scope.

(* README facts of an Array = the description on disk + whether metadata.json exists *)
Definition readme_current (d : adir) : Prop :=
  exists ds, a_descr d = Val ds /\ a_readme d = Val (ds, a_meta d).

Lemma rel_readme_current : forall w s, Rel w s -> readme_current (snd w).
Proof.
  intros w s (_ & Hds & Hrm & Hme & _). exists (descr_of s). split; [exact Hds|]. rewrite Hrm, Hme. reflexivity.
Qed.

(* Array: after every operation of every history (append, iterappend, assignment,
   truncate, metadata creation/deletion, mode change, reopen) the README states the
   numeric type, byte order and dimensions on disk and mentions metadata.json exactly
   when it exists *)
Theorem C08_array_current : forall os w s,
  Rel w s -> wf_ops s os -> readme_current (snd (run w os)).
Proof.
  intros os w s HR Hwf. destruct (run_refines os w s HR Hwf) as [_ HR']. exact (rel_readme_current _ _ HR').
Qed.
Print Assumptions C08_array_current.

(* ... and right after creation (also overwrite=True re-creation and copy, which are
   creations), for every chunklen *)
Theorem C08_array_created : forall im isnd chunklen m meta nt bo,
  im_dt im = Some (nt, bo) -> Forall (fun x => 0 < x) (im_tail im) ->
  Forall (fun r => Z.of_nat (length r) = prodZ (im_tail im) * itemsize nt) (im_rows im) ->
  exists h d, asarray_m (SSeq im isnd) chunklen m meta = Ok (h, d) /\ readme_current d /\ a_meta d = meta.
Proof.
  intros im isnd chunklen m meta nt bo Hdt Htl Hrows.
  destruct (archunks_seq im isnd chunklen) as (cs & Har & Hne & Hu & Hcat). rewrite Hdt in Hu.
  destruct (asarray_from_chunks _ _ m meta cs nt bo _ _ Har Hne Hu Hcat Htl Hrows) as (h & d & E & HR).
  exists h, d. split; [exact E|]. split; [exact (rel_readme_current _ _ HR)|].
  destruct HR as (_ & _ & _ & Hme & _). exact Hme.
Qed.
Print Assumptions C08_array_created.

(* RaggedArray: the README of the ragged array lists the current number of subarrays,
   rank, element type, the lengths of the first five subarrays, "..." iff there are
   more than six, and the last length iff there are more than five -- and that is what
   documentation regenerated from a freshly opened handle contains; the READMEs of
   values/ and indices/ are current in the sense above *)
Definition ragged_readme_current (d : rdir) : Prop :=
  (exists h, ropen d R = Ok h /\ exists f, readme_facts h d = Some f /\ r_readme d = Val f) /\
  readme_current (r_values d) /\ readme_current (r_indices d).

Lemma rrel_readme_current : forall w g, RRel w g ->
  ragged_readme_current (snd w) /\ r_readme (snd w) = Val (facts_of g).
Proof.
  intros w g HRR. destruct (rfresh_agrees w g R HRR) as (h' & Ho & HR').
  pose proof HRR as (HV & HI & _ & _ & Hrm & _ & _ & Hty & Hb).
  pose proof HR' as (HV' & HI' & _). cbn [fst snd] in *.
  split; [|exact Hrm]. split; [|split].
  - exists h'. split; [exact Ho|]. exists (facts_of g). split; [|exact Hrm].
    change (facts_of g) with (facts_of (g_with_mode g R)).
    apply readme_facts_rel; assumption.
  - exact (rel_readme_current _ _ HV).
  - exact (rel_readme_current _ _ HI).
Qed.

Theorem C08_ragged_current : forall os w g,
  RRel w g -> wf_rops g os ->
  ragged_readme_current (snd (rrun w os)) /\ r_readme (snd (rrun w os)) = Val (facts_of (rspec_run g os)).
Proof.
  intros os w g HR Hwf. destruct (rrun_refines os w g HR Hwf) as [_ HR']. exact (rrel_readme_current _ _ HR').
Qed.
Print Assumptions C08_ragged_current.

Theorem C08_ragged_created : forall g, wf_srag g ->
  exists w, rcreate (g_nt g) (g_bo g) (g_atom g) (g_ity g) (g_subs g) (g_mode g) (g_meta g) = Ok w /\
            ragged_readme_current (snd w) /\ r_readme (snd w) = Val (facts_of g).
Proof.
  intros g Hwf. destruct (rcreate_rel g Hwf) as (w & Hc & HR). exists w. split; [exact Hc|].
  exact (rrel_readme_current _ _ HR).
Qed.
Print Assumptions C08_ragged_created.

(* the "first five and last" listing *)
Example C08_listing_example :
  let g n := mkSrag Int8 Little [] Int64 (map (fun k => repeat [0] k) (seq 1 n)) RW false in
  (rf_first (facts_of (g 4%nat)), rf_dots (facts_of (g 4%nat)), rf_last (facts_of (g 4%nat))) = ([1;2;3;4], false, None) /\
  (rf_first (facts_of (g 6%nat)), rf_dots (facts_of (g 6%nat)), rf_last (facts_of (g 6%nat))) = ([1;2;3;4;5], false, Some 6) /\
  (rf_first (facts_of (g 7%nat)), rf_dots (facts_of (g 7%nat)), rf_last (facts_of (g 7%nat))) = ([1;2;3;4;5], true, Some 7).
Proof. vm_compute. repeat split. Qed.

(* Tie by translation (DESIGN sec. 4.1a): the functions through which every change of
   length goes -- Array._update_len and RaggedArray._update_lens, as their control
   skeletons are re-read from the source on every run -- rewrite the README AFTER the
   description in EVERY completed run: there is no completed path through the present
   source that changes a description and leaves the README as it was. *)
Theorem C08_update_len_rewrites_readme_from_source : forall o ks,
  aruns sk_update_len o ks -> o <> Raised -> ks = [KDescr; KReadme].
Proof. exact update_len_exact. Qed.
Print Assumptions C08_update_len_rewrites_readme_from_source.

Theorem C08_ragged_update_lens_rewrites_readme_from_source : forall o ks,
  rruns sk_ragged_update_lens o ks -> o <> Raised ->
  ks = [KV KDescr; KV KReadme; KI KDescr; KI KReadme; KRDescr; KRReadme].
Proof. exact ragged_update_lens_exact. Qed.
Print Assumptions C08_ragged_update_lens_rewrites_readme_from_source.
