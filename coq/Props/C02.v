(* C02 -- the on-disk format is self-describing: the files alone reconstruct the array. *)
From Coq Require Import ZArith List Bool.
From Darr Require Import Base ArrayModel Codec Spec Gen_tables
     Proofs.ArrayRefine Proofs.ArrayHist Proofs.Codec.
Import ListNotations.
Open Scope Z_scope.

(* the documented encoding is invertible for element lists of every length, every one
   of the 13 types and both byte orders *)
Theorem C02_codec_roundtrip : forall nt bo elems,
  Forall (fun e => Z.of_nat (length e) = itemsize nt) elems ->
  decode nt bo (length elems) (encode nt bo elems) = elems.
Proof. exact codec_roundtrip. Qed.
Print Assumptions C02_codec_roundtrip.

(* After every completed operation of every history (append, iterappend, assignment,
   truncate, metadata change, mode change, reopen) from a state related to the NumPy
   model: data file, JSON description and README exist, the data length is
   prod(shape) x itemsize, and a reader using only the documented format obtains the
   dtype, shape and exactly the bytes the model (= what the API reports, C03) holds *)
Theorem C02_reachable : forall os w s,
  Rel w s -> wf_ops s os ->
  let w' := run w os in let s' := spec_run s os in
  Inv_disk (snd w') /\
  exists elems, decode_dir (snd w') = Some (s_nt s', s_bo s', s_ord s', s_shape s', elems) /\
                Z.of_nat (length elems) = prodZ (s_shape s') /\
                encode (s_nt s') (s_bo s') elems = concat (s_rows s').
Proof.
  intros os w s HR Hwf w' s'. apply rel_inv_disk. apply (run_refines os w s HR Hwf).
Qed.
Print Assumptions C02_reachable.

(* the finite table: the 13 type names the code uses (GENERATED from
   darr/numtype.py) are exactly the model's, in the same order, and the two byte
   order labels are distinct *)
Theorem C02_type_names : numtypes_keys = map numtype_name all_numtypes.
Proof. vm_compute. reflexivity. Qed.
Print Assumptions C02_type_names.

Theorem C02_itemsizes :
  map itemsize all_numtypes = [1; 2; 4; 8; 1; 2; 4; 8; 2; 4; 8; 8; 16] /\
  forall nt, itemsize nt = (itemsize nt / swapunit nt) * swapunit nt.
Proof. split; [reflexivity|]. intros nt; destruct nt; reflexivity. Qed.
Print Assumptions C02_itemsizes.

(* non-vacuity *)
Example C02_example :
  decode_dir (mkDir (Some [1;0;2;0;3;0;4;0]) (Val (mkDescr Int16 Little [2;2] OrdC)) Absent false)
  = Some (Int16, Little, OrdC, [2;2], [[0;1];[0;2];[0;3];[0;4]]) /\
  decode Complex64 Little 1 [1;2;3;4;5;6;7;8] = [[4;3;2;1;8;7;6;5]].
Proof. vm_compute. split; reflexivity. Qed.
