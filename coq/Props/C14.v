(* C14 -- chunk iteration yields exactly the specified frames.
   Property theorems only; every statement is about the functions GENERATED from
   /repo's darr/utils.py and darr/array.py (Gen_frames.v). *)
From Coq Require Import ZArith List Bool.
From Darr Require Import Base Gen_frames Proofs.Frames.
Import ListNotations.
Open Scope Z_scope.

(* fit_frames returns the matching (count, covered length, remainder) triple:
   n is EXACTLY the number of k >= 0 whose frame [k*s, k*s+c) ends at or before t *)
Theorem C14_fit_frames : forall t c so n ns r,
  0 <= t -> 1 <= c -> 1 <= step_of c so ->
  fit_frames t c so = Ok (n, ns, r) ->
  let s := step_of c so in
  0 <= n /\ (forall k, 0 <= k -> (k < n <-> k * s + c <= t)) /\
  ns = (if n =? 0 then 0 else (n - 1) * s + c) /\ r = t - ns /\ 0 <= r.
Proof. exact fit_frames_spec. Qed.
Print Assumptions C14_fit_frames.

Theorem C14_fit_frames_rejects : forall t c so,
  t < 0 \/ c < 1 \/ (exists s, so = Some s /\ s < 1) ->
  fit_frames t c so = Err ValueError.
Proof. exact fit_frames_rejects. Qed.
Print Assumptions C14_fit_frames_rejects.

(* iterindices yields the full frames for exactly the k counted by fit_frames,
   then the partial frame iff flag, a remainder exists and next start < end *)
Theorem C14_iterindices : forall len0 c so sto eno flag,
  let s := dflt c so in let st := dflt 0 sto in let en := dflt len0 eno in
  0 <= st -> st < en -> en <= len0 -> 1 <= c -> 1 <= s ->
  exists n ns r, fit_frames (en - st) c (Some s) = Ok (n, ns, r) /\
  iterindices len0 c so sto eno flag = Ok (expected_frames st en c s flag n r).
Proof. exact iterindices_spec. Qed.
Print Assumptions C14_iterindices.

Theorem C14_iterindices_rejects : forall len0 c so sto eno flag,
  let s := dflt c so in let st := dflt 0 sto in let en := dflt len0 eno in
  st < 0 \/ en <= st \/ len0 < en \/ c < 1 \/ s < 1 ->
  iterindices len0 c so sto eno flag = Err ValueError.
Proof. exact iterindices_rejects. Qed.
Print Assumptions C14_iterindices_rejects.

(* with step = chunklen and the remainder included the chunks concatenate to a[start:end] *)
Theorem C14_iterchunks_concat : forall A (l : list A) len0 c sto eno,
  let st := dflt 0 sto in let en := dflt len0 eno in
  0 <= st -> st < en -> en <= len0 -> 1 <= c ->
  exists fr, iterindices len0 c None sto eno true = Ok fr /\
  concat (map (fun p => slice l (fst p) (snd p)) fr) = slice l st en.
Proof. exact iterchunks_concat. Qed.
Print Assumptions C14_iterchunks_concat.
