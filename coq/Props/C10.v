(* C10 -- a failed RaggedArray append leaves exactly the completed subarrays. *)
From Coq Require Import ZArith List Bool.
From Darr Require Import Base ArrayModel RaggedModel Spec
     Proofs.ArrayRefine Proofs.RaggedBase Proofs.RaggedRefine Proofs.RaggedProps
     Skel Gen_effects EffectOrder EffectOrderR Proofs.SkelProofs Proofs.SkelRProofs.
Import ListNotations.
Open Scope Z_scope.

(* For every start state, atom rank, number of items, failure position and kind -- the
   iterable raises (RRaise), an item has no length / cannot be converted (RUnconv), has
   another atom or rank (RGood with another tail), its end index does not fit the index
   type (decided by index_max), the values write stops after any k bytes (RVFail) or
   the index-row write stops after any k bytes (RIFail) -- the call fails, the state is
   related to the model holding the original subarrays ++ those appended completely,
   the directory is structurally well-formed (C05) and opens. *)
Theorem C10_failed_append : forall w g its good,
  RRel w g -> g_mode g = RW -> wf_rop g (ROpIterAppend its) ->
  rgood_prefix (g_atom g) (index_max (g_ity g)) (g_nrows g) its = (good, true) ->
  let w' := snd (rstep w (ROpIterAppend its)) in
  is_ok (fst (rstep w (ROpIterAppend its))) = false /\
  RRel w' (g_with_subs g (g_subs g ++ good)) /\ wf_ragged (snd w') /\
  (forall m, exists h', ropen (snd w') m = Ok h').
Proof. exact rfailed_append. Qed.
Print Assumptions C10_failed_append.

(* non-vacuity: index overflow with uint8 indices (255 value rows allowed) and a torn
   index row *)
Definition ex_g : srag := mkSrag Int8 Little [] Int8 [[[1];[2]]] RW false.
Example C10_example :
  wf_srag ex_g /\
  match rcreate Int8 Little [] Int8 (g_subs ex_g) RW false with
  | Ok w =>
      let big := repeat [5] 126 in
      rgood_prefix [] (index_max Int8) 2 [RGood [] [[3]]; RGood [] big; RGood [] [[4]]] = ([[[3]]], true) /\
      let w' := snd (rstep w (ROpIterAppend [RGood [] [[3]]; RGood [] big; RGood [] [[4]]])) in
      a_data (r_values (snd w')) = Some [1;2;3] /\ a_data (r_indices (snd w')) = Some [0;2;2;3] /\
      let w2 := snd (rstep w (ROpIterAppend [RIFail [] [[3]] 1])) in
      a_data (r_values (snd w2)) = Some [1;2] /\ a_data (r_indices (snd w2)) = Some [0;2]
  | Err _ => False
  end.
Proof.
  split.
  - unfold wf_srag. cbn. repeat split; repeat constructor. vm_compute. discriminate.
  - vm_compute. repeat split.
Qed.

(* the index limit is exact: a subarray whose end index EQUALS the largest value of the index type
   is accepted, one whose end index is one beyond it is refused (after its values were written:
   the recovery of C10_failed_append removes them) *)
Theorem C10_index_limit : forall h tail rows vlen,
  tails_eqb tail (tl (h_shape (rh_v h))) = true ->
  let size := Z.of_nat (length rows) in
  (vlen + size <= index_max (h_nt (rh_i h)) -> snd (rappend_one h (RGood tail rows) vlen) = Some size) /\
  (vlen + size > index_max (h_nt (rh_i h)) -> snd (rappend_one h (RGood tail rows) vlen) = None).
Proof.
  intros h tail rows vlen Ht size. unfold rappend_one. rewrite Ht. fold size.
  destruct (Z.leb_spec (vlen + size) (index_max (h_nt (rh_i h)))) as [Hle|Hgt]; split; intros H;
    try reflexivity; exfalso; apply (Z.lt_irrefl (vlen + size)).
  - apply Z.gt_lt in H. eapply Z.le_lt_trans; eassumption.
  - eapply Z.le_lt_trans; eassumption.
Qed.
Print Assumptions C10_index_limit.

(* The recovery path as the present source spells it (tie by translation, see C17):
   the effect log of every model call of RaggedArray.iterappend is a run of the control
   skeleton regenerated from darr/raggedarray.py on every run -- per item values/ then
   indices/ (RaggedArray._append, from its own skeleton), on failure both data files cut
   back, then _update_lens (values, indices, top-level description, README). *)
Theorem C10_recovery_order_from_source : forall h d its r h' es,
  riterappend h d its = (r, h', es) ->
  exists o, oc_match r o /\ rruns sk_ragged_iterappend o (map rkind_of es).
Proof. exact riterappend_runs. Qed.
Print Assumptions C10_recovery_order_from_source.
