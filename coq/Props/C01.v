(* C01 -- Array creation round-trips values, dtype, byte order and shape. *)
From Coq Require Import ZArith List Bool.
From Darr Require Import Base Gen_frames ArrayModel Spec Proofs.ArrayRefine Proofs.ArrayHist
     Proofs.Create.
Import ListNotations.
Open Scope Z_scope.

Definition wf_image (im : image) (nt : numtype) (bo : byteorder) : Prop :=
  im_dt im = Some (nt, bo) /\ Forall (fun x => 0 < x) (im_tail im) /\
  Forall (fun r => Z.of_nat (length r) = prodZ (im_tail im) * itemsize nt) (im_rows im).

(* the NumPy reference of a creation: dtype with byte order, shape, every row *)
Definition reference (nt : numtype) (bo : byteorder) (tail : list Z) (rows : list (list Z))
  (m : mode) (meta : bool) : sarr := mkSarr nt bo OrdC tail rows m meta.

(* ndarray / list / tuple, for EVERY chunklen (None or any integer, also <= 0 or > len):
   the created directory and the returned handle are related to the reference, i.e.
   dtype, byte order, shape and every byte are the reference's (and by C03_fresh_agrees
   a freshly opened handle sees the same) *)
Theorem C01_asarray_sequence : forall im isnd chunklen m meta nt bo,
  wf_image im nt bo ->
  exists h d, asarray_m (SSeq im isnd) chunklen m meta = Ok (h, d) /\
              Rel (h, d) (reference nt bo (im_tail im) (im_rows im) m meta).
Proof.
  intros im isnd chunklen m meta nt bo (Hdt & Htl & Hrows).
  destruct (archunks_seq im isnd chunklen) as (cs & Har & Hne & Hu & Hcat). rewrite Hdt in Hu.
  exact (asarray_from_chunks _ _ m meta cs nt bo _ _ Har Hne Hu Hcat Htl Hrows).
Qed.
Print Assumptions C01_asarray_sequence.

Theorem C01_asarray_darr : forall im chunklen m meta nt bo,
  wf_image im nt bo ->
  exists h d, asarray_m (SDarr im) chunklen m meta = Ok (h, d) /\
              Rel (h, d) (reference nt bo (im_tail im) (im_rows im) m meta).
Proof.
  intros im chunklen m meta nt bo (Hdt & Htl & Hrows).
  destruct (archunks_darr im chunklen) as (cs & Har & Hne & Hu & Hcat). rewrite Hdt in Hu.
  exact (asarray_from_chunks _ _ m meta cs nt bo _ _ Har Hne Hu Hcat Htl Hrows).
Qed.
Print Assumptions C01_asarray_darr.

(* the result does not depend on chunklen *)
Theorem C01_chunklen_independent : forall im isnd c1 c2 m meta nt bo,
  wf_image im nt bo ->
  asarray_m (SSeq im isnd) c1 m meta = asarray_m (SSeq im isnd) c2 m meta /\
  asarray_m (SDarr im) c1 m meta = asarray_m (SDarr im) c2 m meta.
Proof.
  intros im isnd c1 c2 m meta nt bo Hwf. split.
  - destruct (C01_asarray_sequence im isnd c1 m meta nt bo Hwf) as (h1 & d1 & E1 & R1).
    destruct (C01_asarray_sequence im isnd c2 m meta nt bo Hwf) as (h2 & d2 & E2 & R2).
    rewrite E1, E2. f_equal. exact (Rel_unique _ _ _ R1 R2).
  - destruct (C01_asarray_darr im c1 m meta nt bo Hwf) as (h1 & d1 & E1 & R1).
    destruct (C01_asarray_darr im c2 m meta nt bo Hwf) as (h2 & d2 & E2 & R2).
    rewrite E1, E2. f_equal. exact (Rel_unique _ _ _ R1 R2).
Qed.
Print Assumptions C01_chunklen_independent.

(* a scalar is stored as a 1-element array; an iterator of chunks is concatenated *)
Theorem C01_asarray_iterator : forall cs chunklen m meta nt bo tail,
  cs <> [] -> uniform (Some (nt, bo)) tail cs -> Forall (fun x => 0 < x) tail ->
  Forall (fun r => Z.of_nat (length r) = prodZ tail * itemsize nt) (concat (map im_rows cs)) ->
  exists h d, asarray_m (SIter cs) chunklen m meta = Ok (h, d) /\
              Rel (h, d) (reference nt bo tail (concat (map im_rows cs)) m meta).
Proof.
  intros cs chunklen m meta nt bo tail Hne Hu Htl Hrows.
  exact (asarray_from_chunks (SIter cs) chunklen m meta cs nt bo tail _ eq_refl Hne Hu eq_refl Htl Hrows).
Qed.
Print Assumptions C01_asarray_iterator.

Theorem C01_asarray_scalar : forall im chunklen m meta nt bo row,
  im_dt im = Some (nt, bo) -> im_tail im = [] -> im_rows im = [row] ->
  Z.of_nat (length row) = itemsize nt ->
  exists h d, asarray_m (SScalar im) chunklen m meta = Ok (h, d) /\
              Rel (h, d) (reference nt bo [] [row] m meta).
Proof.
  intros im chunklen m meta nt bo row Hdt Htail Hrows Hrow.
  apply (asarray_from_chunks (SScalar im) chunklen m meta [im] nt bo [] [row] eq_refl).
  - discriminate.
  - repeat constructor; assumption.
  - cbn. rewrite Hrows. reflexivity.
  - constructor.
  - repeat constructor. cbn. rewrite Hrow. destruct (itemsize nt); reflexivity.
Qed.
Print Assumptions C01_asarray_scalar.

(* create_array: the fill generator produces rows 0..n-1 of the reference (np.full, or
   the fill function on the first-axis index grid: f j = bytes of row j), whatever the
   chunk length *)
Theorem C01_create_array : forall n cl f nt bo tail m meta,
  0 <= n -> 1 <= cl -> Forall (fun x => 0 < x) tail ->
  (forall j, Z.of_nat (length (f j)) = prodZ tail * itemsize nt) ->
  exists h d, asarray_m (SIter (fillchunks n cl f (Some (nt, bo)) tail)) None m meta = Ok (h, d) /\
              Rel (h, d) (reference nt bo tail (map (fun j => f (Z.of_nat j)) (seq 0 (Z.to_nat n))) m meta).
Proof.
  intros n cl f nt bo tail m meta Hn Hcl Htl Hf.
  destruct (fillchunks_concat n cl f (Some (nt, bo)) tail Hn Hcl) as (Hcat & Hne & Hu).
  apply (asarray_from_chunks (SIter (fillchunks n cl f (Some (nt, bo)) tail)) None m meta
           (fillchunks n cl f (Some (nt, bo)) tail) nt bo tail _ eq_refl Hne Hu Hcat Htl).
  apply Forall_forall. intros r Hr. apply in_map_iff in Hr. destruct Hr as (j & <- & _). apply Hf.
Qed.
Print Assumptions C01_create_array.

(* inputs whose element type is not one of the 13 supported ones are rejected with
   TypeError -- the model returns no directory at all in that case *)
Theorem C01_rejects : forall im isnd chunklen m meta,
  im_dt im = None ->
  asarray_m (SSeq im isnd) chunklen m meta = Err TypeError /\
  asarray_m (SDarr im) chunklen m meta = Err TypeError /\
  asarray_m (SScalar im) chunklen m meta = Err TypeError /\
  asarray_m SOther chunklen m meta = Err TypeError.
Proof.
  intros im isnd chunklen m meta Hdt. repeat split.
  - destruct (archunks_seq im isnd chunklen) as (cs & Har & Hne & Hu & _).
    destruct cs as [|c0 rest]; [contradiction|]. inversion Hu as [|? ? [H0 _] _]; subst.
    apply (asarray_rejects _ _ _ _ c0 rest Har). congruence.
  - destruct (archunks_darr im chunklen) as (cs & Har & Hne & Hu & _).
    destruct cs as [|c0 rest]; [contradiction|]. inversion Hu as [|? ? [H0 _] _]; subst.
    apply (asarray_rejects _ _ _ _ c0 rest Har). congruence.
  - apply (asarray_rejects (SScalar im) chunklen m meta im [] eq_refl Hdt).
Qed.
Print Assumptions C01_rejects.

(* non-vacuity: a (5,2) int16 array cut with chunklen 2 (two full chunks + remainder) *)
Definition ex_im : image :=
  mkImage (Some (Int16, Big)) [2] [[0;1;0;2]; [0;3;0;4]; [0;5;0;6]; [0;7;0;8]; [0;9;0;10]].
Example C01_example :
  wf_image ex_im Int16 Big /\
  (match archunks (SSeq ex_im true) (Some 2) with Ok cs => map (fun c => length (im_rows c)) cs | _ => [] end) = [2;2;1]%nat /\
  asarray_m (SSeq ex_im true) (Some 2) RW false = asarray_m (SSeq ex_im true) None RW false /\
  (match asarray_m (SSeq ex_im true) (Some 2) RW false with
   | Ok (h, d) => a_data d = Some (concat (im_rows ex_im)) /\ h_shape h = [5;2] | _ => False end).
Proof. unfold wf_image. cbn. repeat split; repeat constructor. Qed.
