(* C11 -- read-only access mode is enforced for every mutating operation. *)
From Coq Require Import ZArith List Bool.
From Darr Require Import Base ArrayModel RaggedModel Spec
     Proofs.ArrayRefine Proofs.ArrayHist Proofs.RaggedBase Proofs.RaggedRefine Proofs.RaggedProps.
Import ListNotations.
Open Scope Z_scope.

(* Array: in mode 'r' -- however it was obtained: the mode is a field of the state, so
   every history of creations, reopenings and mode switches is covered -- every mutating
   operation (assignment, append/iterappend, truncate, metadata update/creation and
   deletion) raises OSError and the whole world, hence every file, is unchanged; for ANY
   state, including arrays whose first axis has length 0 *)
Theorem C11_array_readonly : forall h d o,
  h_mode h = R -> mutating d o = true -> step (h, d) o = (Err OSError, (h, d)).
Proof. exact readonly_unchanged. Qed.
Print Assumptions C11_array_readonly.

Theorem C11_ragged_readonly : forall w g o,
  RRel w g -> g_mode g = R -> rmutating (snd w) o = true -> rstep w o = (Err OSError, w).
Proof. exact rreadonly_refuses. Qed.
Print Assumptions C11_ragged_readonly.

(* after switching the handle to 'r+' the same operations succeed (when valid) *)
Theorem C11_array_rplus : forall w s o,
  Rel w s -> wf_op s o ->
  let w1 := snd (step w (OpSetMode (Some RW))) in let s1 := with_mode s RW in
  Rel w1 s1 /\
  is_ok (fst (step w1 o)) = fst (spec_step s1 o) /\
  (forall cs g, o = OpIterAppend cs -> good_prefix (s_tail s) cs = (g, false) -> fst (spec_step s1 o) = true) /\
  (o = OpMetaSet -> fst (spec_step s1 o) = true) /\
  (forall p, o = OpSetItem (Some p) -> fst (spec_step s1 o) = true).
Proof.
  intros w s o HR Hwf w1 s1.
  destruct (step_refines w s (OpSetMode (Some RW)) HR I) as [_ HR1]. fold w1 in HR1.
  change (snd (spec_step s (OpSetMode (Some RW)))) with s1 in HR1.
  split; [exact HR1|]. split.
  - apply (step_refines w1 s1 o HR1). destruct o; cbn in *; try exact I. exact Hwf.
  - repeat split.
    + intros cs g -> HG. cbn [spec_step s1 with_mode s_mode s_tail]. rewrite HG. reflexivity.
    + intros ->. reflexivity.
    + intros p ->. reflexivity.
Qed.
Print Assumptions C11_array_rplus.

Theorem C11_ragged_rplus : forall w g its good,
  RRel w g -> wf_rop g (ROpIterAppend its) ->
  rgood_prefix (g_atom g) (index_max (g_ity g)) (g_nrows g) its = (good, false) ->
  let w1 := snd (rstep w (ROpSetMode RW)) in
  is_ok (fst (rstep w1 (ROpIterAppend its))) = true /\ is_ok (fst (rstep w1 ROpMetaSet)) = true.
Proof.
  intros w g its good HR Hwf HG w1.
  destruct (rstep_refines w g (ROpSetMode RW) HR I) as [_ HR1]. fold w1 in HR1.
  cbn [rspec_step snd] in HR1. split.
  - destruct (rstep_refines w1 _ (ROpIterAppend its) HR1 Hwf) as [Hok _]. rewrite Hok.
    cbn [rspec_step g_with_mode g_mode g_atom g_ity]. unfold g_nrows. cbn [g_subs g_with_mode].
    fold (g_nrows g). rewrite HG. reflexivity.
  - destruct (rstep_refines w1 _ ROpMetaSet HR1 I) as [Hok _]. rewrite Hok. reflexivity.
Qed.
Print Assumptions C11_ragged_rplus.

(* non-vacuity: an EMPTY read-only array refuses assignment, append, truncate, metadata *)
Definition ex_h := mkHandle R Float64 Little [0; 2].
Definition ex_d := mkDir (Some []) (Val (mkDescr Float64 Little [0;2] OrdC))
                         (Val (mkDescr Float64 Little [0;2] OrdC, false)) false.
Example C11_example :
  map (fun o => fst (step (ex_h, ex_d) o))
      [OpSetItem (Some []); OpIterAppend []; OpIterAppend [CGood [2] []]; OpTruncate (Some 0); OpMetaSet]
  = repeat (Err OSError) 5.
Proof. vm_compute. reflexivity. Qed.
