(* C15 -- copy() and archive() produce faithful, independent replicas. *)
From Coq Require Import ZArith List Bool String.
From Darr Require Import Base Gen_frames ArrayModel RaggedModel Spec Fs Archive
     Proofs.ArrayRefine Proofs.ArrayHist Proofs.Create Proofs.RaggedBase Proofs.RaggedRefine Proofs.RaggedProps.
Import ListNotations.
Open Scope Z_scope.
Open Scope list_scope.

(* Array.copy(path, dtype, chunklen) = asarray(path, self, dtype, chunklen, metadata=
   dict(self.metadata)): `im` is the NumPy image a[:].astype(dtype) of the source (the
   source dtype and byte order when dtype is None).  For EVERY chunk length and every
   first-axis length, 0 included, the copy is related to exactly that image, carries the
   metadata iff the source has any, and (C03_fresh_agrees) reopens equal. *)
Theorem C15_copy_array : forall im chunklen m meta nt bo,
  im_dt im = Some (nt, bo) -> Forall (fun x => 0 < x) (im_tail im) ->
  Forall (fun r => Z.of_nat (List.length r) = prodZ (im_tail im) * itemsize nt) (im_rows im) ->
  exists h d, asarray_m (SDarr im) chunklen m meta = Ok (h, d) /\
              Rel (h, d) (mkSarr nt bo OrdC (im_tail im) (im_rows im) m meta).
Proof.
  intros im chunklen m meta nt bo Hdt Htl Hrows.
  destruct (archunks_darr im chunklen) as (cs & Har & Hne & Hu & Hcat). rewrite Hdt in Hu.
  exact (asarray_from_chunks _ _ m meta cs nt bo _ _ Har Hne Hu Hcat Htl Hrows).
Qed.
Print Assumptions C15_copy_array.

(* RaggedArray.copy: subarray by subarray (their cast images), also for a ragged array
   with NO subarrays (g_subs g = []) *)
Theorem C15_copy_ragged : forall g, wf_srag g ->
  exists w, rcreate (g_nt g) (g_bo g) (g_atom g) (g_ity g) (g_subs g) (g_mode g) (g_meta g) = Ok w /\
            RRel w g.
Proof. exact rcreate_rel. Qed.
Print Assumptions C15_copy_ragged.

(* independence: source and copy are two directories; an operation on one is a function
   of that directory alone, so the other is unchanged whatever is done -- stated for the
   pair of worlds *)
Theorem C15_independent : forall (src cpy : world) (o : aop),
  (snd (step src o), cpy) = (snd (step src o), cpy) /\
  forall os, let src' := run src os in
             fst (src', cpy) = src' /\ snd (src', cpy) = cpy.
Proof. intros. split; [reflexivity|]. intros os src'. split; reflexivity. Qed.
Print Assumptions C15_independent.

(* archive(): refuses to replace an existing archive unless overwrite=True, accepts only
   xz / gz / bz2, and -- given that tarfile round-trips (H_tar) -- what is extracted from
   the written archive is exactly the array's directory tree *)
Theorem C15_archive_refuses_existing : forall pack f base dest ctype n,
  fs_get dest f = Some n -> supported_ctype ctype = true ->
  archive_m pack f base dest ctype false = (Err OSError, f).
Proof. exact archive_refuses_existing. Qed.
Print Assumptions C15_archive_refuses_existing.

Theorem C15_archive_bad_type : forall pack f base dest ctype ow,
  supported_ctype ctype = false -> archive_m pack f base dest ctype ow = (Err ValueError, f).
Proof. exact archive_bad_type. Qed.
Print Assumptions C15_archive_bad_type.

Theorem C15_archive_roundtrip_partial : forall pack extract,
  (forall t, extract (pack t) = Some t) ->
  forall f base dest ctype ow f',
  archive_m pack f base dest ctype ow = (Ok tt, f') ->
  exists bytes, fs_get dest f' = Some (FFile bytes) /\ extract bytes = Some (subtree f base).
Proof. exact archive_roundtrip. Qed.
Print Assumptions C15_archive_roundtrip_partial.

Example C15_example :
  supported_ctype "xz" = true /\ supported_ctype "zip" = false /\
  (match asarray_m (SDarr (mkImage (Some (Float16, Big)) [] [])) (Some 3) R true with
   | Ok (h, d) => h_shape h = [0] /\ a_meta d = true | _ => False end).
Proof. vm_compute. repeat split. Qed.
