(* C07 -- generated read code for RaggedArrays extracts every subarray correctly.
   Statements only; proofs are in Proofs/ReadcodeRaggedProofs.v. *)
From Coq Require Import ZArith List Bool String.
From Darr Require Import Base ArrayModel Codec Gen_tables Readcode ReadcodeRagged
     Proofs.ReadcodeProofs Proofs.ReadcodeRaggedProofs.
Import ListNotations.
Open Scope Z_scope.
Open Scope string_scope.

(* For every language, atom of any rank, value / index type, any index chain `rows` and any k:
   with i and v the arrays the two array programs bind (C07_arrays), the accessor applied to k (in the
   language's numbering) is defined and returns subarray k -- elements s .. e-1 of the values array
   along its slowest axis, in the language's axis order -- and for a zero-length subarray an empty
   value whose dimensions, where the language gives it any, are those of the atom in that order. *)
Theorem C07_accessor : forall l r ielems velems rows k s e,
  In l ragged_languages ->
  Z.of_nat (List.length rows) = ri_n r -> map ival ielems = flat_rows rows ->
  nth_error rows k = Some (s, e) -> 0 <= s -> s <= e -> e <= ri_vlen r ->
  exists res,
    program_accessor l r
      (mkA (ri_int r) (lang_dims (array_lang l) (index_shape r)) (lang_order (array_lang l)) ielems)
      (mkA (ri_vnt r) (lang_dims (array_lang l) (values_shape r)) (lang_order (array_lang l)) velems)
      (Z.of_nat k + origin l) = Some res
    /\ sub_represents l (ri_vnt r) (ri_atom r) (e - s) (sub_elems (ri_atom r) velems s e) res.
Proof. exact accessor_correct. Qed.
Print Assumptions C07_accessor.

(* the index and values arrays are what the embedded array programs deliver, and neither writes *)
Theorem C07_arrays : forall l r m ielems velems ci cv,
  In l ragged_languages -> l <> "darr" ->
  Z.of_nat (List.length ielems) = prodZ (index_shape r) -> sized (ri_int r) ielems ->
  Z.of_nat (List.length velems) = prodZ (values_shape r) -> sized (ri_vnt r) velems ->
  plan_of (array_lang l) (ri_int r) (index_shape r) (ri_ibo r) (rpath m "indices") "i" (String.eqb l "R") = Some ci ->
  plan_of (array_lang l) (ri_vnt r) (values_shape r) (ri_vbo r) (rpath m "values") "v" false = Some cv ->
  denote ci (ri_int r, ri_ibo r) (encode (ri_int r) (ri_ibo r) ielems)
    = Some (DArr (mkA (ri_int r) (lang_dims (array_lang l) (index_shape r)) (lang_order (array_lang l)) ielems)) /\
  denote cv (ri_vnt r, ri_vbo r) (encode (ri_vnt r) (ri_vbo r) velems)
    = Some (DArr (mkA (ri_vnt r) (lang_dims (array_lang l) (values_shape r)) (lang_order (array_lang l)) velems)) /\
  writes ci = false /\ writes cv = false.
Proof. exact ragged_arrays. Qed.
Print Assumptions C07_arrays.

(* the example binds subarray min(2, n-1) and calls it first / second / third accordingly -- for the
   selection GENERATED from each composer's source *)
Theorem C07_example : forall l n, In l ragged_languages -> 1 <= n ->
  let k0 := fst (example_of l n) - origin l in
  0 <= k0 < n /\ k0 = Z.min 2 (n - 1) /\ snd (example_of l n) = position_word k0.
Proof. exact example_ok. Qed.
Print Assumptions C07_example.

(* code is withheld exactly when the values type or the index type is unsupported in the language *)
Theorem C07_withheld : forall l r m, In l ragged_languages ->
  is_some (readcode_ragged l r m) =
  (String.eqb l "darr" ||
   (is_some (toks_of (array_lang l) (ri_int r) (ri_ibo r) (String.eqb l "R"))
    && is_some (toks_of (array_lang l) (ri_vnt r) (ri_vbo r) false)
    && (negb (String.eqb l "R") || r_size_ok r))).
Proof. exact withheld_iff. Qed.
Print Assumptions C07_withheld.

(* R: with int64 indices, code is given exactly while every index value -- at most the number of
   stored values -- fits R's 32-bit integer; the cut-off is the one in the source *)
Theorem C07_r_limit : r_size_limit = 2 ^ 31 - 1 /\
  forall r, numtype_eqb (ri_int r) Int64 = true ->
            (r_size_ok r = true <-> ri_vlen r * prodZ (ri_atom r) <= 2 ^ 31 - 1).
Proof.
  split; [reflexivity|]. intros r Hi. unfold r_size_ok. rewrite Hi. cbn [andb].
  change r_size_limit with (2 ^ 31 - 1). rewrite negb_true_iff, Z.ltb_ge. reflexivity.
Qed.
Print Assumptions C07_r_limit.

(* non-vacuity: atom (2,3), three subarrays of lengths 1, 0, 2 read in Julia: subarray 3 (k0 = 2) has
   dims (3, 2, 2); the empty one has dims (3, 2, 0); in IDL the empty one has no dims *)
Definition ex_r : rinfo := mkRinfo 3 [2; 3] Float32 Little 3 Int64 Little.
Definition ex_i : list (list Z) := map (fun x => [0; 0; 0; 0; 0; 0; 0; x]) [0; 1; 1; 1; 1; 3].
Definition ex_v : list (list Z) := map (fun x => [x; 0; 0; 0]) [1;2;3;4;5;6; 7;8;9;10;11;12; 13;14;15;16;17;18].
Example C07_nonvacuous :
  let i l := mkA Int64 (lang_dims (array_lang l) [3; 2]) (lang_order (array_lang l)) ex_i in
  let v l := mkA Float32 (lang_dims (array_lang l) [3; 2; 3]) (lang_order (array_lang l)) ex_v in
  (match program_accessor "julia" ex_r (i "julia") (v "julia") 3 with
   | Some (SArr a) => a_dims a = [3; 2; 2] /\ aget a [2; 1; 0] = Some [12; 0; 0; 0] | _ => False end) /\
  (match program_accessor "julia" ex_r (i "julia") (v "julia") 2 with
   | Some (SArr a) => a_dims a = [3; 2; 0] | _ => False end) /\
  program_accessor "idl" ex_r (i "idl") (v "idl") 1 = Some SNoDims /\
  (match program_accessor "R" ex_r (i "R") (v "R") 2 with
   | Some (SArr a) => a_dims a = [3; 2; 0] | _ => False end).
Proof. vm_compute. repeat split; reflexivity. Qed.

(* the block taken by `slice_slowest` IS the subscript range of the slowest axis: row-major
   v[lo:hi][j, idx] = v[lo+j, idx]; column-major v(idx, lo+1:hi)(idx, j) = v(idx, lo+j) *)
Theorem C07_range_row : forall t n inner_ flat lo hi j idx,
  0 <= lo -> hi <= n -> 0 <= j < hi - lo -> in_range inner_ idx = true ->
  aget (slice_slowest (mkA t (n :: inner_) RowMajor flat) lo hi) (j :: idx)
  = aget (mkA t (n :: inner_) RowMajor flat) (lo + j :: idx).
Proof. exact slice_slowest_row. Qed.
Print Assumptions C07_range_row.
Theorem C07_range_col : forall t n inner_ flat lo hi j idx,
  0 <= lo -> hi <= n -> 0 <= j < hi - lo -> in_range inner_ idx = true ->
  aget (slice_slowest (mkA t (inner_ ++ [n])%list ColMajor flat) lo hi) (idx ++ [j])%list
  = aget (mkA t (inner_ ++ [n])%list ColMajor flat) (idx ++ [lo + j])%list.
Proof. exact slice_slowest_col. Qed.
Print Assumptions C07_range_col.
