(* Archive.v -- DataDir.archive: the gates Darr itself implements; the tar / compression
   round trip is external and enters as a Section hypothesis (H_tar). *)
From Coq Require Import ZArith List Bool String.
From Darr Require Import Base Fs.
Import ListNotations.
Open Scope Z_scope.

Definition subtree (f : fs) (base : path) : fs := filter (fun e => is_prefix base (fst e)) f.

Section Archive.
  Variable pack : fs -> list Z.                 (* tarfile.add + compression *)
  Variable extract : list Z -> option fs.       (* tarfile.extractall *)
  Hypothesis H_tar : forall t, extract (pack t) = Some t.

  Definition supported_ctype (c : string) : bool :=
    existsb (String.eqb c) ["xz"; "gz"; "bz2"]%string.

  (* archive(filepath=dest, compressiontype, overwrite) *)
  Definition archive_m (f : fs) (base dest : path) (ctype : string) (ow : bool) : res unit * fs :=
    if negb (supported_ctype ctype) then (Err ValueError, f)
    else match fs_get dest f with
         | Some _ => if ow then (Ok tt, fs_set dest (FFile (pack (subtree f base))) f)
                     else (Err OSError, f)                    (* mode 'x': FileExistsError *)
         | None => (Ok tt, fs_set dest (FFile (pack (subtree f base))) f)
         end.

  Theorem archive_refuses_existing : forall f base dest ctype n,
    fs_get dest f = Some n -> supported_ctype ctype = true ->
    archive_m f base dest ctype false = (Err OSError, f).
  Proof. intros f base dest ctype n H Hc. unfold archive_m. rewrite Hc, H. reflexivity. Qed.

  Theorem archive_bad_type : forall f base dest ctype ow,
    supported_ctype ctype = false -> archive_m f base dest ctype ow = (Err ValueError, f).
  Proof. intros. unfold archive_m. rewrite H. reflexivity. Qed.

  Theorem archive_roundtrip : forall f base dest ctype ow f',
    archive_m f base dest ctype ow = (Ok tt, f') ->
    exists bytes, fs_get dest f' = Some (FFile bytes) /\ extract bytes = Some (subtree f base).
  Proof.
    intros f base dest ctype ow f' H. unfold archive_m in H.
    destruct (supported_ctype ctype); cbn [negb] in H; [|discriminate].
    assert (G: forall p n g, path_eqb p p = true -> fs_get p (fs_set p n g) = Some n).
    { intros p n g E. unfold fs_set. cbn. rewrite E. reflexivity. }
    assert (Er: forall p, path_eqb p p = true).
    { induction p as [|x p IH]; cbn; [reflexivity|]. rewrite String.eqb_refl. exact IH. }
    destruct (fs_get dest f) as [n|]; [destruct ow; [|discriminate]|]; inversion H; subst;
      eexists; (split; [apply G; apply Er|apply H_tar]).
  Qed.
End Archive.

(* the hypothesis is satisfiable: a toy archiver *)
Definition toy_pack (t : fs) : list Z := [Z.of_nat (List.length t)].
Example archive_instance :
  forall (extract : list Z -> option fs) t, (forall u, extract (toy_pack u) = Some u) ->
  extract (toy_pack t) = Some t.
Proof. intros extract t H. apply H. Qed.
