(* CheckReadcode.v -- comparison helpers used by the generated C06 case files. *)
From Coq Require Import ZArith List Bool String.
From Darr Require Import Base Readcode.
Import ListNotations.
Open Scope Z_scope.

Definition ostr_eqb (a b : option string) : bool :=
  match a, b with
  | Some x, Some y => String.eqb x y
  | None, None => true
  | _, _ => false
  end.
(* the text Array.readcode returned (None: it returned None) *)
Definition chk_rc (lang : string) (nt : numtype) (shape : list Z) (bo : byteorder) (m : pathmode)
           (observed : option string) : bool :=
  ostr_eqb (readcode_array lang nt shape bo m "a" false) observed.
Definition chk_langs (nt : numtype) (shape : list Z) (bo : byteorder) (observed : list string) : bool :=
  list_eqb String.eqb (readcodelanguages nt shape bo) observed.

(* ---------- C07 ---------- *)
From Darr Require Import ReadcodeRagged.
Definition chk_rrc (lang : string) (r : rinfo) (m : pathmode) (observed : option string) : bool :=
  ostr_eqb (readcode_ragged lang r m) observed.
Definition chk_rlangs (r : rinfo) (observed : list string) : bool :=
  list_eqb String.eqb (ragged_readcodelanguages r) observed.
