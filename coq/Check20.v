(* Check20.v -- comparison of Fs.dd_step / delete_dir / create_gate with observations. *)
From Coq Require Import ZArith List Bool String.
From Darr Require Import Base Fs CheckArray.
Import ListNotations.
Open Scope Z_scope.

Definition fnode_eqb (a b : fnode) : bool :=
  match a, b with
  | FFile x, FFile y => zlist_eqb x y
  | FDir, FDir => true
  | FLink x, FLink y => path_eqb x y
  | _, _ => false
  end.
(* same content as a mapping: every entry of a is found in b and vice versa *)
Definition fs_sub (a b : fs) : bool :=
  forallb (fun e => match fs_get (fst e) b with Some n => fnode_eqb n (snd e) | None => false end) a.
Definition fs_same (a b : fs) : bool := fs_sub a b && fs_sub b a.

(* obs: result code; did the directory tree change? *)
Definition chk_dd (f : fs) (base : path) (prot : list string) (o : ddop) (rc : Z) (changed : bool) : bool :=
  let '(r, f') := dd_step f base prot o in
  res_compat r rc && Bool.eqb (negb (fs_same f f')) changed.

(* delete: result code, and the listing (sorted paths, as observed) of what remains *)
Definition chk_delete (f : fs) (base : path) (files : list string) (opens writable : bool)
  (rc : Z) (remaining : fs) : bool :=
  let '(r, f') := delete_dir f base files opens writable in
  res_compat r rc && fs_same f' remaining.

Definition chk_create (f : fs) (p : path) (ow : bool) (rc : Z) : bool :=
  res_compat (create_gate f p ow) rc.

Definition chk_rdelete (f : fs) (base : path) (topfiles afiles : list string) (opens writable : bool)
  (rc : Z) (remaining : fs) : bool :=
  let '(r, f') := delete_ragged f base topfiles afiles opens writable in
  res_compat r rc && fs_same f' remaining.
