(* RaggedModel.v -- executable model of darr.RaggedArray: two Array directories
   (values, indices) + a top-level descriptor and README.  Follows
   darr/raggedarray.py; reuses the Array model for the two sub-arrays.  No proofs. *)
From Coq Require Import ZArith List Bool.
From Darr Require Import Base ArrayModel.
Import ListNotations.
Open Scope Z_scope.

(* ---------- integers in the index file (native = little-endian byte order) ---------- *)

Fixpoint enc_le (n : nat) (v : Z) : list Z :=
  match n with O => [] | S n' => (v mod 256) :: enc_le n' (v / 256) end.
Fixpoint dec_le (bs : list Z) : Z :=
  match bs with [] => 0 | b :: t => b + 256 * dec_le t end.

Definition is_signed (t : numtype) : bool :=
  match t with Int8 | Int16 | Int32 | Int64 => true | _ => false end.
(* largest value an index of type t can hold (NumPy raises OverflowError beyond it) *)
Definition index_max (t : numtype) : Z :=
  if is_signed t then 2 ^ (8 * itemsize t - 1) - 1 else 2 ^ (8 * itemsize t) - 1.

Definition enc_row (t : numtype) (r : Z * Z) : list Z :=
  enc_le (Z.to_nat (itemsize t)) (fst r) ++ enc_le (Z.to_nat (itemsize t)) (snd r).
Definition dec_row (t : numtype) (bs : list Z) : Z * Z :=
  (dec_le (firstn (Z.to_nat (itemsize t)) bs), dec_le (skipn (Z.to_nat (itemsize t)) bs)).

(* ---------- disk and handle ---------- *)

Record rdescr := mkRDescr { rd_len : Z; rd_size : Z; rd_atom : list Z; rd_nt : numtype }.

(* what the ragged README states: number of subarrays, their rank, the element type,
   the listed lengths (first five), whether "..." is shown, the last length *)
Record rfacts := mkRFacts { rf_n : Z; rf_rank : Z; rf_nt : numtype; rf_first : list Z;
                            rf_dots : bool; rf_last : option Z }.

Record rdir := mkRDir {
  r_values : adir; r_indices : adir;
  r_descr : jfile rdescr; r_readme : jfile rfacts; r_meta : bool }.

Record rhandle := mkRHandle { rh_mode : mode; rh_v : handle; rh_i : handle; rh_info : rdescr }.

Inductive reff :=
| RV (e : eff)                 (* effect on values/ *)
| RI (e : eff)                 (* effect on indices/ *)
| RWriteDescr (d : rdescr)
| RWriteReadme (f : rfacts)
| RWriteMeta | RUnlinkMeta.

Definition apply_reff (e : reff) (d : rdir) : rdir :=
  match e with
  | RV x => mkRDir (apply_eff x (r_values d)) (r_indices d) (r_descr d) (r_readme d) (r_meta d)
  | RI x => mkRDir (r_values d) (apply_eff x (r_indices d)) (r_descr d) (r_readme d) (r_meta d)
  | RWriteDescr x => mkRDir (r_values d) (r_indices d) (Val x) (r_readme d) (r_meta d)
  | RWriteReadme x => mkRDir (r_values d) (r_indices d) (r_descr d) (Val x) (r_meta d)
  | RWriteMeta => mkRDir (r_values d) (r_indices d) (r_descr d) (r_readme d) true
  | RUnlinkMeta => mkRDir (r_values d) (r_indices d) (r_descr d) (r_readme d) false
  end.
Definition apply_reffs (es : list reff) (d : rdir) : rdir :=
  fold_left (fun d e => apply_reff e d) es d.

(* ---------- reading the index array from disk ---------- *)

Fixpoint cut (n k : nat) (l : list Z) : list (list Z) :=
  match n with O => [] | S n' => firstn k l :: cut n' k (skipn k l) end.

(* rows of the indices array as a freshly opened Array would show them *)
Definition index_rows (idir : adir) : option (list (Z * Z)) :=
  match open_dir idir R, a_data idir with
  | Ok h, Some bs =>
      Some (map (dec_row (h_nt h)) (cut (Z.to_nat (lenof (h_shape h))) (Z.to_nat (2 * itemsize (h_nt h))) bs))
  | _, _ => None
  end.

(* ---------- opening: RaggedArray.__init__ ---------- *)

Definition ropen (d : rdir) (m : mode) : res rhandle :=
  match open_dir (r_values d) m with
  | Err e => Err e
  | Ok hv =>
    match open_dir (r_indices d) m with
    | Err e => Err e
    | Ok hi =>
        Ok (mkRHandle m hv hi
              (mkRDescr (lenof (h_shape hi)) (prodZ (h_shape hv)) (tl (h_shape hv)) (h_nt hv)))
    end
  end.

(* README facts as readmetxt/dimensionstxt compute them: n and atom from the handle's
   cached shapes, the listed lengths from the index array ON DISK *)
Definition diffs (rows : list (Z * Z)) : list Z := map (fun r => snd r - fst r) rows.
Definition readme_facts (h : rhandle) (d : rdir) : option rfacts :=
  let n := lenof (h_shape (rh_i h)) in
  match index_rows (r_indices d) with
  | Some rows =>
      Some (mkRFacts n (Z.of_nat (length (tl (h_shape (rh_v h)))) + 1) (h_nt (rh_v h))
              (diffs (firstn (Z.to_nat (Z.min n 5)) rows))
              (5 + 1 <? n)
              (if 5 <? n then match rev rows with r :: _ => Some (snd r - fst r) | [] => None end
               else None))
  | None => None
  end.

(* ---------- appending ---------- *)

Inductive ritem :=
| RGood (tail : list Z) (rows : list (list Z))   (* np.asarray(item, dtype): trailing shape, rows *)
| RRaise                                          (* the iterable raises *)
| RUnconv                                         (* no len() / not convertible *)
| RVFail (tail : list Z) (rows : list (list Z)) (k : Z)   (* values write stops after k bytes *)
| RIFail (tail : list Z) (rows : list (list Z)) (k : Z).  (* index-row write stops after k bytes *)

(* RaggedArray._append for one item at running values length vlen:
   effects and Some (rows added) or None = raises *)
Definition rappend_one (h : rhandle) (it : ritem) (vlen : Z) : list reff * option Z :=
  let atom := tl (h_shape (rh_v h)) in
  let ity := h_nt (rh_i h) in
  match it with
  | RRaise | RUnconv => ([], None)
  | RGood tail rows =>
      if tails_eqb tail atom then
        let size := Z.of_nat (length rows) in
        let ev := [RV (EAppendData (chunk_bytes rows))] in
        if (vlen + size <=? index_max ity)
        then (ev ++ [RI (EAppendData (enc_row ity (vlen, vlen + size)))], Some size)
        else (ev, None)                                   (* OverflowError *)
      else ([], None)
  | RVFail tail rows k =>
      if tails_eqb tail atom
      then ([RV (EAppendData (firstn (Z.to_nat k) (chunk_bytes rows)))], None)
      else ([], None)
  | RIFail tail rows k =>
      if tails_eqb tail atom then
        let size := Z.of_nat (length rows) in
        let ev := [RV (EAppendData (chunk_bytes rows))] in
        if (vlen + size <=? index_max ity)
        then (ev ++ [RI (EAppendData (firstn (Z.to_nat k) (enc_row ity (vlen, vlen + size))))], None)
        else (ev, None)
      else ([], None)
  end.

Fixpoint rappend_loop (h : rhandle) (its : list ritem) (vlen vinc iinc : Z)
  : list reff * Z * Z * bool :=
  match its with
  | [] => ([], vinc, iinc, false)
  | it :: rest =>
      match rappend_one h it (vlen + vinc) with
      | (es, Some n) =>
          let '(es', v', i', f) := rappend_loop h rest vlen (vinc + n) (iinc + 1) in (es ++ es', v', i', f)
      | (es, None) => (es, vinc, iinc, true)
      end
  end.

Definition ropres := (res unit * rhandle * list reff)%type.

(* _update_lens: values._update_len, indices._update_len, top-level descriptor, README *)
Definition update_lens (h : rhandle) (d : rdir) (vinc iinc : Z) : res (rhandle * list reff) :=
  match update_len (rh_v h) (r_values d) vinc with
  | Err e => Err e
  | Ok (hv, ev) =>
    match update_len (rh_i h) (r_indices d) iinc with
    | Err e => Err e
    | Ok (hi, ei) =>
        let info := mkRDescr (lenof (h_shape hi)) (prodZ (h_shape hv)) (rd_atom (rh_info h)) (rd_nt (rh_info h)) in
        let h' := mkRHandle (rh_mode h) hv hi info in
        let es := map RV ev ++ map RI ei ++ [RWriteDescr info] in
        match readme_facts h' (apply_reffs es d) with
        | Some f => Ok (h', es ++ [RWriteReadme f])
        | None => Err ValueError
        end
    end
  end.

Definition riterappend (h : rhandle) (d : rdir) (its : list ritem) : ropres :=
  match rh_mode h with
  | R => (Err OSError, h, [])
  | RW =>
    let vlen := lenof (h_shape (rh_v h)) in
    let ilen := lenof (h_shape (rh_i h)) in
    let '(es, vinc, iinc, failed) := rappend_loop h its vlen 0 0 in
    let tr := if failed
              then [RV (ETruncData ((vlen + vinc) * rowbytes (h_nt (rh_v h)) (h_shape (rh_v h))));
                    RI (ETruncData ((ilen + iinc) * rowbytes (h_nt (rh_i h)) (h_shape (rh_i h))))]
              else [] in
    match update_lens h (apply_reffs (es ++ tr) d) vinc iinc with
    | Err e => (Err e, h, es ++ tr)
    | Ok (h', ues) => (if failed then Err OtherError else Ok tt, h', es ++ tr ++ ues)
    end
  end.

(* ---------- truncate_raggedarray(ra, index) on an object ---------- *)

Definition lift_v (es : list eff) := map RV es.
Definition lift_i (es : list eff) := map RI es.

Definition rtruncate (h : rhandle) (d : rdir) (idx : option Z) : ropres :=
  match idx with
  | None => (Err TypeError, h, [])
  | Some i =>
    match a_descr (r_indices d) with
    | Val ids =>
      let newlen := slice_len i (lenof (d_shape ids)) in
      match rh_mode h with
      | R => (Err OSError, h, [])
      | RW =>
        let cur := lenof (h_shape (rh_i h)) in
        if (0 <=? newlen) && (newlen <? cur) then
          (* truncate_array(ra._indices, newlen) *)
          match truncate (rh_i h) (r_indices d) (Some newlen) with
          | (Err e, _, es) => (Err e, h, lift_i es)
          | (Ok _, hi, ei) =>
            let d1 := apply_reffs (lift_i ei) d in
            let vi := if newlen =? 0 then 0
                      else match index_rows (r_indices d1) with
                           | Some rows => match rev rows with r :: _ => snd r | [] => 0 end
                           | None => 0 end in
            let '(rv, hv, ev) :=
               if vi <? lenof (h_shape (rh_v h))
               then truncate (rh_v h) (r_values d1) (Some vi)
               else (Ok tt, rh_v h, []) in
            match rv with
            | Err e => (Err e, mkRHandle (rh_mode h) hv hi (rh_info h), lift_i ei ++ lift_v ev)
            | Ok _ =>
              let h1 := mkRHandle (rh_mode h) hv hi (rh_info h) in
              let d2 := apply_reffs (lift_v ev) d1 in
              match readme_facts h1 d2 with
              | None => (Err ValueError, h1, lift_i ei ++ lift_v ev)
              | Some f =>
                let info := mkRDescr (lenof (h_shape hi)) (prodZ (h_shape hv))
                                     (rd_atom (rh_info h)) (rd_nt (rh_info h)) in
                (Ok tt, mkRHandle (rh_mode h) hv hi info,
                 lift_i ei ++ lift_v ev ++ [RWriteReadme f; RWriteDescr info])
              end
            end
          end
        else (Err IndexError, h, [])
      end
    | _ => (Err ValueError, h, [])
    end
  end.

(* ---------- reading: ra[k], iter_arrays ---------- *)

Definition zslice_bytes (bs : list Z) (a b rb : Z) : list Z :=
  firstn (Z.to_nat ((b - a) * rb)) (skipn (Z.to_nat (a * rb)) bs).

(* k: None = not an integer *)
Definition rgetitem (h : rhandle) (d : rdir) (k : option Z) : res (list Z) :=
  match k with
  | None => Err TypeError
  | Some k =>
    match index_rows (r_indices d), a_data (r_values d) with
    | Some rows, Some bs =>
        let n := Z.of_nat (length rows) in
        if (- n <=? k) && (k <? n) then
          let r := nth (Z.to_nat (if k <? 0 then k + n else k)) rows (0, 0) in
          Ok (zslice_bytes bs (fst r) (snd r) (rowbytes (h_nt (rh_v h)) (h_shape (rh_v h))))
        else Err IndexError
    | _, _ => Err ValueError
    end
  end.

(* Python's range(start, stop, step), step <> 0 *)
Definition range_len (start stop step : Z) : Z :=
  if 0 <? step then (if start <? stop then (stop - start + step - 1) / step else 0)
  else (if stop <? start then (start - stop - step - 1) / (- step) else 0).
Definition py_range (start stop step : Z) : list Z :=
  map (fun j => start + Z.of_nat j * step) (seq 0 (Z.to_nat (range_len start stop step))).

(* what a consumer of a generator sees: all items, or the first exception *)
Fixpoint collect {A} (l : list (res A)) : res (list A) :=
  match l with
  | [] => Ok []
  | Ok x :: t => match collect t with Ok r => Ok (x :: r) | Err e => Err e end
  | Err e :: _ => Err e
  end.

(* iter_arrays(startindex, endindex, stepsize): ra[i] for i in range(start, end or narrays, step) *)
Definition riter_arrays (h : rhandle) (d : rdir) (start : Z) (stop : option Z) (step : Z) : res (list (list Z)) :=
  if step =? 0 then Err ValueError
  else match index_rows (r_indices d) with
       | None => Err ValueError
       | Some rows =>
           let n := Z.of_nat (length rows) in
           collect (map (fun i => rgetitem h d (Some i)) (py_range start (match stop with Some e => e | None => n end) step))
       end.

(* ---------- operations and histories ---------- *)

Inductive rop :=
| ROpIterAppend (its : list ritem)
| ROpTruncate (idx : option Z)
| ROpSetMode (m : mode)
| ROpReopen (m : mode)
| ROpMetaSet | ROpMetaClear | ROpMetaPop.

Definition rworld := (rhandle * rdir)%type.

Definition set_hmode (h : handle) (m : mode) := mkHandle m (h_nt h) (h_bo h) (h_shape h).

Definition rexec (w : rworld) (o : rop) : ropres :=
  let '(h, d) := w in
  match o with
  | ROpIterAppend its => riterappend h d its
  | ROpTruncate i => rtruncate h d i
  | ROpSetMode m => (Ok tt, mkRHandle m (set_hmode (rh_v h) m) (set_hmode (rh_i h) m) (rh_info h), [])
  | ROpReopen m => match ropen d m with Ok h' => (Ok tt, h', []) | Err e => (Err e, h, []) end
  | ROpMetaSet => match rh_mode h with R => (Err OSError, h, []) | RW => (Ok tt, h, [RWriteMeta]) end
  | ROpMetaClear => if r_meta d then
                      match rh_mode h with R => (Err OSError, h, []) | RW => (Ok tt, h, [RUnlinkMeta]) end
                    else (Ok tt, h, [])
  | ROpMetaPop => match rh_mode h with
                  | R => (Err OSError, h, [])
                  | RW => if r_meta d then (Ok tt, h, [RUnlinkMeta]) else (Err KeyError, h, [])
                  end
  end.

Definition rstep (w : rworld) (o : rop) : res unit * rworld :=
  let '(r, h', es) := rexec w o in (r, (h', apply_reffs es (snd w))).

Definition rrun (w : rworld) (os : list rop) : rworld := fold_left (fun w o => snd (rstep w o)) os w.

(* ---------- creation ---------- *)

(* asraggedarray(path, items, dtype, indextype): every item already converted by NumPy
   (oracle) to rows of the first item's dtype.  create_raggedarray = no items. *)
Fixpoint chain_from (s : Z) (lens : list Z) : list (Z * Z) :=
  match lens with [] => [] | l :: t => (s, s + l) :: chain_from (s + l) t end.
Definition chain_rows (lens : list Z) : list (Z * Z) := chain_from 0 lens.

Definition rcreate (nt : numtype) (bo : byteorder) (atom : list Z) (ity : numtype)
  (subs : list (list (list Z))) (m : mode) (meta : bool) : res rworld :=
  let vrows := concat subs in
  let idx := chain_rows (map (fun s => Z.of_nat (length s)) subs) in
  if negb (forallb (fun r => snd r <=? index_max ity) idx) then Err OtherError else
  let vds := mkDescr nt bo (Z.of_nat (length vrows) :: atom) OrdC in
  let ids := mkDescr ity Little [Z.of_nat (length idx); 2] OrdC in
  let vd := mkDir (Some (concat vrows)) (Val vds) (Val (vds, false)) false in
  let idr := mkDir (Some (concat (map (enc_row ity) idx))) (Val ids) (Val (ids, false)) false in
  let d0 := mkRDir vd idr Absent Absent meta in
  match ropen d0 m with
  | Err e => Err e
  | Ok h =>
      match readme_facts h d0 with
      | None => Err ValueError
      | Some f => Ok (h, mkRDir vd idr (Val (rh_info h)) (Val f) meta)
      end
  end.
