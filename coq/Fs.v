(* Fs.v -- a small file-system model: a tree addressed by absolute component lists with
   files, directories and symbolic links; spellings of names as DataDir methods receive
   them; path resolution; the public DataDir mutators with their write-protection guard
   (darr/datadir.py, after the resolved-target fix); delete_array / delete_raggedarray
   and the creation gate (create_datadir / write gates).  No proofs. *)
From Coq Require Import ZArith List Bool String.
From Darr Require Import Base.
Import ListNotations.
Open Scope Z_scope.

Definition path := list string.
Inductive fnode := FFile (content : list Z) | FDir | FLink (target : path).
Definition fs := list (path * fnode).        (* association list; first match wins *)

Fixpoint path_eqb (a b : path) : bool :=
  match a, b with
  | [], [] => true
  | x :: a', y :: b' => String.eqb x y && path_eqb a' b'
  | _, _ => false
  end.
Fixpoint is_prefix (a b : path) : bool :=        (* a is b or an ancestor of b *)
  match a, b with
  | [], _ => true
  | x :: a', y :: b' => String.eqb x y && is_prefix a' b'
  | _ :: _, [] => false
  end.

Fixpoint fs_get (p : path) (f : fs) : option fnode :=
  match f with [] => None | (q, n) :: t => if path_eqb p q then Some n else fs_get p t end.
Definition fs_set (p : path) (n : fnode) (f : fs) : fs :=
  (p, n) :: filter (fun e => negb (path_eqb p (fst e))) f.
Definition fs_del (p : path) (f : fs) : fs := filter (fun e => negb (path_eqb p (fst e))) f.
Definition fs_children (p : path) (f : fs) : list path :=
  map fst (filter (fun e => is_prefix p (fst e) && negb (path_eqb p (fst e))) f).

(* ---------- spellings and resolution ---------- *)
Inductive comp := CName (n : string) | CDot | CUp.
Record spelling := mkSp { sp_abs : bool; sp_comps : list comp }.   (* '' and '.' are CDot *)

(* resolve as the kernel / Path.resolve() do: '.', '..', symbolic links.  A link's target
   is an absolute, already resolved path (links to links are not modelled). *)
Fixpoint walk (f : fs) (cur : path) (rest : list comp) : path :=
  match rest with
  | [] => cur
  | CDot :: r => walk f cur r
  | CUp :: r => walk f (removelast cur) r
  | CName n :: r =>
      let p := cur ++ [n] in
      match fs_get p f with
      | Some (FLink tgt) => walk f tgt r
      | _ => walk f p r
      end
  end.
Definition resolve (f : fs) (base : path) (s : spelling) : option path :=
  Some (walk f (if sp_abs s then [] else base) (sp_comps s)).

(* ---------- the write-protection guard ---------- *)
Definition under_protected (base : path) (prot : list string) (target : path) : bool :=
  existsb (fun p => is_prefix (base ++ [p]) target) prot.

Definition guard (f : fs) (base : path) (prot : list string) (s : spelling) (readonly : bool) : bool :=
  if readonly then false
  else match resolve f base s with
       | Some t => under_protected base prot t
       | None => true            (* resolution loops: the OS refuses as well *)
       end.

(* ---------- DataDir mutators ---------- *)
Inductive ddop :=
| DWriteTxt (s : spelling) (text : list Z) (overwrite : bool)
| DWriteJson (s : spelling) (isdict : bool) (text : list Z) (overwrite : bool)   (* write_jsondict *)
| DUpdateJson (s : spelling) (newtext : option (list Z))   (* None: file missing / not a dict *)
| DDelete (ss : list spelling)
| DOpen (s : spelling) (plain_r : bool) (creates : bool) (newcontent : option (list Z)).

Definition target_of (f : fs) (base : path) (s : spelling) : path :=
  match resolve f base s with Some t => t | None => base end.

Definition dd_step (f : fs) (base : path) (prot : list string) (o : ddop) : res unit * fs :=
  match o with
  | DWriteTxt s text ow =>
      if guard f base prot s false then (Err OSError, f) else
      let t := target_of f base s in
      match fs_get t f with
      | Some (FFile _) => if ow then (Ok tt, fs_set t (FFile text) f) else (Err OSError, f)
      | Some _ => (Err OSError, f)                    (* a directory is in the way *)
      | None => (Ok tt, fs_set t (FFile text) f)
      end
  | DWriteJson s isdict text ow =>
      if guard f base prot s false then (Err OSError, f) else
      if negb isdict then (Err TypeError, f) else
      let t := target_of f base s in
      match fs_get t f with
      | Some (FFile _) => if ow then (Ok tt, fs_set t (FFile text) f) else (Err OSError, f)
      | Some _ => (Err OSError, f)
      | None => (Ok tt, fs_set t (FFile text) f)
      end
  | DUpdateJson s newtext =>
      if guard f base prot s false then (Err OSError, f) else
      match newtext with
      | None => (Err OtherError, f)
      | Some text => (Ok tt, fs_set (target_of f base s) (FFile text) f)
      end
  | DDelete ss =>
      if existsb (fun s => guard f base prot s false) ss then (Err OSError, f)
      else (Ok tt, fold_left (fun f s =>
                     let t := target_of f base s in
                     match fs_get t f with Some (FFile _) => fs_del t f | _ => f end) ss f)
  | DOpen s plain_r creates newcontent =>
      if guard f base prot s plain_r then (Err OSError, f) else
      let t := target_of f base s in
      match fs_get t f, newcontent with
      | Some (FFile _), Some c => (Ok tt, fs_set t (FFile c) f)
      | Some (FFile _), None => (Ok tt, f)
      | Some _, _ => (Err OSError, f)
      | None, Some c => if creates then (Ok tt, fs_set t (FFile c) f) else (Err OSError, f)
      | None, None => if creates then (Ok tt, fs_set t (FFile []) f) else (Err OSError, f)
      end
  end.

(* ---------- deleting an array directory (darr/array.py delete_array) ---------- *)
(* opens: the directory is a valid array of the right kind; writable: access mode r+ *)
Definition delete_dir (f : fs) (base : path) (files : list string) (opens writable : bool) : res unit * fs :=
  if negb opens then (Err TypeError, f)
  else if negb writable then (Err OSError, f)
  else
    let f1 := fold_left (fun f n => match fs_get (base ++ [n]) f with
                                    | Some (FFile _) | Some (FLink _) => fs_del (base ++ [n]) f
                                    | _ => f end) files f in
    match fs_children base f1 with
    | [] => (Ok tt, fs_del base f1)                   (* rmdir succeeds only if empty *)
    | _ => (Err OSError, f1)
    end.

(* creating on an existing path without overwrite: refused, nothing touched *)
Definition create_gate (f : fs) (p : path) (overwrite : bool) : res unit :=
  match fs_get p f with
  | Some FDir => if overwrite then Ok tt else Err OSError
  | Some _ => Err OSError                              (* a plain file / link is in the way *)
  | None => Ok tt
  end.

(* ---------- deleting a ragged array directory (darr/raggedarray.py delete_raggedarray) ---------- *)
(* the top-level files are unlinked first (directories are skipped), then values/ and indices/
   are deleted as arrays, then the directory is removed; a failure stops the sequence *)
Definition delete_ragged (f : fs) (base : path) (topfiles afiles : list string) (opens writable : bool)
  : res unit * fs :=
  if negb opens then (Err TypeError, f)
  else if negb writable then (Err OSError, f)
  else
    let f1 := fold_left (fun f n => match fs_get (base ++ [n]) f with
                                    | Some (FFile _) | Some (FLink _) => fs_del (base ++ [n]) f
                                    | _ => f end) topfiles f in
    match delete_dir f1 (base ++ ["values"%string]) afiles true true with
    | (Err e, f2) => (Err e, f2)
    | (Ok _, f2) =>
        match delete_dir f2 (base ++ ["indices"%string]) afiles true true with
        | (Err e, f3) => (Err e, f3)
        | (Ok _, f3) =>
            match fs_children base f3 with
            | [] => (Ok tt, fs_del base f3)
            | _ => (Err OSError, f3)
            end
        end
    end.
