(* ArrayModel.v -- executable model of darr.Array on one array directory.
   Hand-written; follows darr/array.py operation by operation (the ORDER of file
   effects, the values cached in the handle, the gates that are tested).
   Tied to the code by the correspondence checks (CheckArray.v + harness).
   No proofs in this file: the model must still run when a proof breaks. *)
From Coq Require Import ZArith List Bool.
From Darr Require Import Base.
Import ListNotations.
Open Scope Z_scope.

(* ---------- what is on disk ---------- *)

Record descr := mkDescr { d_nt : numtype; d_bo : byteorder; d_shape : list Z; d_ord : arrayorder }.

(* what README.txt states: the format facts and whether metadata.json is mentioned *)
Definition facts := (descr * bool)%type.

Record adir := mkDir {
  a_data   : option (list Z);      (* arrayvalues.bin, bytes; None = file missing *)
  a_descr  : jfile descr;          (* arraydescription.json *)
  a_readme : jfile facts;          (* README.txt *)
  a_meta   : bool                  (* metadata.json exists (with a non-empty dict) *)
}.

(* ---------- the handle (a darr.Array object) ---------- *)

Record handle := mkHandle { h_mode : mode; h_nt : numtype; h_bo : byteorder; h_shape : list Z }.

Definition rowbytes (nt : numtype) (shape : list Z) : Z := prodZ (tl shape) * itemsize nt.
Definition lenof (shape : list Z) : Z := hd 0 shape.

(* ---------- primitive file effects ---------- *)

Inductive eff :=
| EWriteData (bs : list Z)          (* open(..,'wb') / tofile(path): truncate to 0, then write *)
| EAppendData (bs : list Z)         (* seek(end); tofile(fd) *)
| ETruncData (n : Z)                (* os.truncate / fd.truncate *)
| EPokeData (off : Z) (bs : list Z) (* write through the memory map *)
| EWriteDescr (d : descr)           (* open(..,'w'); write json *)
| EWriteReadme (f : facts)
| EWriteMeta | EUnlinkMeta.

Definition poke (off : Z) (bs data : list Z) : list Z :=
  if (0 <=? off) && (off + Z.of_nat (length bs) <=? Z.of_nat (length data))
  then firstn (Z.to_nat off) data ++ bs ++ skipn (Z.to_nat off + length bs) data
  else data.

Definition apply_eff (e : eff) (d : adir) : adir :=
  match e with
  | EWriteData bs => mkDir (Some bs) (a_descr d) (a_readme d) (a_meta d)
  | EAppendData bs => mkDir (option_map (fun x => x ++ bs) (a_data d)) (a_descr d) (a_readme d) (a_meta d)
  | ETruncData n => mkDir (option_map (firstn (Z.to_nat n)) (a_data d)) (a_descr d) (a_readme d) (a_meta d)
  | EPokeData off bs => mkDir (option_map (poke off bs) (a_data d)) (a_descr d) (a_readme d) (a_meta d)
  | EWriteDescr ds => mkDir (a_data d) (Val ds) (a_readme d) (a_meta d)
  | EWriteReadme f => mkDir (a_data d) (a_descr d) (Val f) (a_meta d)
  | EWriteMeta => mkDir (a_data d) (a_descr d) (a_readme d) true
  | EUnlinkMeta => mkDir (a_data d) (a_descr d) (a_readme d) false
  end.

Definition apply_effs (es : list eff) (d : adir) : adir := fold_left (fun d e => apply_eff e d) es d.

(* ---------- opening: Array.__init__ ---------- *)

Definition shape_ok (sh : list Z) : bool := forallb (fun x => 0 <=? x) sh && negb (length sh =? 0)%nat.

(* _read_arraydescr + _check_arrayinfoconsistency + the first _open_array *)
Definition open_dir (d : adir) (m : mode) : res handle :=
  match a_descr d with
  | Val ds =>
      match a_data d with
      | Some bs =>
          if negb (shape_ok (d_shape ds)) then Err ValueError   (* numpy refuses such shapes *)
          else if Z.of_nat (length bs) =? prodZ (d_shape ds) * itemsize (d_nt ds)
          then Ok (mkHandle m (d_nt ds) (d_bo ds) (d_shape ds))
          else Err ValueError
      | None => Err OSError
      end
  | Torn => Err ValueError
  | Absent => Err OSError
  end.

(* what a (fresh) handle shows: dtype, shape, raw contents *)
Definition view := (numtype * byteorder * list Z * list Z)%type.
Definition view_of (d : adir) : option view :=
  match open_dir d R, a_data d with
  | Ok h, Some bs => Some (h_nt h, h_bo h, h_shape h, bs)
  | _, _ => None
  end.

(* ---------- _update_len ---------- *)

Definition set_len (shape : list Z) (n : Z) : list Z := match shape with [] => [] | _ :: t => n :: t end.

(* _update_arrayinfo(shape=...) re-reads the descriptor from disk, replaces the
   shape by the handle's CACHED shape (+increase), rewrites it; then README from
   the descriptor on disk and the presence of metadata *)
Definition update_len (h : handle) (d : adir) (inc : Z) : res (handle * list eff) :=
  let sh := set_len (h_shape h) (lenof (h_shape h) + inc) in
  let h' := mkHandle (h_mode h) (h_nt h) (h_bo h) sh in
  match a_descr d with
  | Val ds => let ds' := mkDescr (d_nt ds) (d_bo ds) sh (d_ord ds) in
              Ok (h', [EWriteDescr ds'; EWriteReadme (ds', a_meta d)])
  | _ => Err ValueError
  end.

(* ---------- appending ---------- *)

(* one item of the iterable, as NumPy sees it (oracle): after
   np.asarray(item, dtype=array dtype) it has a trailing shape and rows of bytes *)
Inductive chunk :=
| CGood (tail : list Z) (rows : list (list Z))
| CRaise                                  (* the iterable raises instead of yielding *)
| CUnconv                                 (* np.asarray raises for this item *)
| CWriteFail (tail : list Z) (rows : list (list Z)) (k : Z).  (* k bytes reach the file, then OSError *)

Definition chunk_bytes (rows : list (list Z)) : list Z := concat rows.

Definition tails_eqb (a b : list Z) : bool := zlist_eqb a b.

(* outcome of _append for one chunk: Some (effects, rows added) or None = raises
   (with the effects that happened before raising) *)
Definition append_one (h : handle) (c : chunk) : list eff * option Z :=
  match c with
  | CGood tail rows => if tails_eqb tail (tl (h_shape h))
                       then ([EAppendData (chunk_bytes rows)], Some (Z.of_nat (length rows)))
                       else ([], None)
  | CRaise | CUnconv => ([], None)
  | CWriteFail tail rows k => if tails_eqb tail (tl (h_shape h))
                              then ([EAppendData (firstn (Z.to_nat k) (chunk_bytes rows))], None)
                              else ([], None)
  end.

(* the for-loop of iterappend: effects so far, lenincrease, and whether it failed *)
Fixpoint append_loop (h : handle) (cs : list chunk) (inc : Z) : list eff * Z * bool :=
  match cs with
  | [] => ([], inc, false)
  | c :: rest =>
      match append_one h c with
      | (es, Some n) => let '(es', inc', failed) := append_loop h rest (inc + n) in (es ++ es', inc', failed)
      | (es, None) => (es, inc, true)
      end
  end.

(* result of an operation: outcome, new handle, effects in order *)
Definition opres := (res unit * handle * list eff)%type.

Definition iterappend_main (h : handle) (d : adir) (cs : list chunk) (pre : list eff) : opres :=
  let '(es, inc, failed) := append_loop h cs 0 in
  let d1 := apply_effs es d in
  match update_len h d1 inc with
  | Err e => (Err e, h, pre ++ es)
  | Ok (h', ues) =>
      if failed
      then (Err AppendDataError, h',
            pre ++ es ++ ues ++ [ETruncData (prodZ (h_shape h') * itemsize (h_nt h'))])
      else (Ok tt, h', pre ++ es ++ ues)
  end.

Definition iterappend (h : handle) (d : adir) (cs : list chunk) : opres :=
  match h_mode h with
  | R => (Err OSError, h, [])
  | RW =>
    if prodZ (h_shape h) =? 0 then
      (* empty array: the first chunk overwrites the data file through its path *)
      match cs with
      | [] => (Ok tt, h, [])
      | CRaise :: _ => (Err OtherError, h, [])
      | CUnconv :: _ => (Err ValueError, h, [])
      | CGood tail rows :: rest =>
          if tails_eqb tail (tl (h_shape h)) then
            let e0 := [EWriteData (chunk_bytes rows)] in
            match update_len h (apply_effs e0 d) (Z.of_nat (length rows)) with
            | Err e => (Err e, h, e0)
            | Ok (h1, ues) => iterappend_main h1 (apply_effs (e0 ++ ues) d) rest (e0 ++ ues)
            end
          else (Err TypeError, h, [])
      | CWriteFail tail rows k :: _ =>
          if tails_eqb tail (tl (h_shape h)) then
            (Err OSError, h, [EWriteData (firstn (Z.to_nat k) (chunk_bytes rows)); ETruncData 0])
          else (Err TypeError, h, [])
      end
    else iterappend_main h d cs []
  end.

(* ---------- truncate_array(a, index) on an Array object ---------- *)

Definition truncate (h : handle) (d : adir) (idx : option Z) : opres :=
  match h_mode h with
  | R => (Err OSError, h, [])                       (* check_arraywriteable *)
  | RW =>
    match idx with
    | None => (Err TypeError, h, [])                (* not an int *)
    | Some i =>
      match a_descr d with
      | Val ds =>
        let newlen := slice_len i (lenof (d_shape ds)) in   (* len(mmap[:index]) *)
        let cur := lenof (h_shape h) in
        if (0 <=? newlen) && (newlen <? cur) then
          let e0 := [ETruncData (newlen * rowbytes (h_nt h) (h_shape h))] in
          match update_len h (apply_effs e0 d) (newlen - cur) with
          | Err e => (Err e, h, e0)
          | Ok (h', ues) => (Ok tt, h', e0 ++ ues)
          end
        else (Err IndexError, h, [])
      | _ => (Err ValueError, h, [])
      end
    end
  end.

(* ---------- a[index] = value ---------- *)
(* NumPy decides which bytes change (oracle): None = NumPy raises for this index/value *)
Definition setitem (h : handle) (d : adir) (w : option (list (Z * list Z))) : opres :=
  match h_mode h with
  | R => (Err OSError, h, [])
  | RW => match w with
          | None => (Err OtherError, h, [])
          | Some pokes => (Ok tt, h, map (fun p => EPokeData (fst p) (snd p)) pokes)
          end
  end.

(* ---------- metadata creation / deletion as seen by the array ---------- *)
Definition meta_set (h : handle) (d : adir) : opres :=
  match h_mode h with
  | R => (Err OSError, h, [])
  | RW => match a_descr d with
          | Val ds => (Ok tt, h, [EWriteMeta; EWriteReadme (ds, true)])
          | _ => (Err ValueError, h, [EWriteMeta])
          end
  end.
(* "pop every key": nothing is called when there is no metadata *)
Definition meta_clear (h : handle) (d : adir) : opres :=
  if a_meta d then
    match h_mode h with
    | R => (Err OSError, h, [])
    | RW => match a_descr d with
            | Val ds => (Ok tt, h, [EUnlinkMeta; EWriteReadme (ds, false)])
            | _ => (Err ValueError, h, [EUnlinkMeta])
            end
    end
  else (Ok tt, h, []).

(* pop / popitem / del: the mode is looked at first; a missing key raises KeyError *)
Definition meta_pop (h : handle) (d : adir) : opres :=
  match h_mode h with
  | R => (Err OSError, h, [])
  | RW => if a_meta d then
            match a_descr d with
            | Val ds => (Ok tt, h, [EUnlinkMeta; EWriteReadme (ds, false)])
            | _ => (Err ValueError, h, [EUnlinkMeta])
            end
          else (Err KeyError, h, [])
  end.

(* ---------- operations and histories ---------- *)

Inductive aop :=
| OpIterAppend (cs : list chunk)
| OpTruncate (idx : option Z)
| OpSetItem (w : option (list (Z * list Z)))
| OpSetMode (m : option mode)      (* None: an invalid mode string *)
| OpReopen (m : mode)
| OpMetaSet | OpMetaClear
| OpMetaPop.    (* metadata.pop / popitem / del of the only key *)

Definition world := (handle * adir)%type.

Definition exec (w : world) (o : aop) : opres :=
  let '(h, d) := w in
  match o with
  | OpIterAppend cs => iterappend h d cs
  | OpTruncate i => truncate h d i
  | OpSetItem x => setitem h d x
  | OpSetMode (Some m) => (Ok tt, mkHandle m (h_nt h) (h_bo h) (h_shape h), [])
  | OpSetMode None => (Err ValueError, h, [])       (* refused before anything is stored *)
  | OpReopen m => match open_dir d m with Ok h' => (Ok tt, h', []) | Err e => (Err e, h, []) end
  | OpMetaSet => meta_set h d
  | OpMetaClear => meta_clear h d
  | OpMetaPop => meta_pop h d
  end.

Definition step (w : world) (o : aop) : res unit * world :=
  let '(r, h', es) := exec w o in (r, (h', apply_effs es (snd w))).

Definition run (w : world) (os : list aop) : world := fold_left (fun w o => snd (step w o)) os w.

(* ---------- creation: asarray / create_array (darr/array.py:782-930) ---------- *)

(* what reaches asarray after _archunkgenerator: the chunks, each already
   converted by NumPy (oracle) -- the first fixes the dtype *)
Definition firstn_rows {A} (n : Z) (l : list A) := firstn (Z.to_nat n) l.
Definition skipn_rows {A} (n : Z) (l : list A) := skipn (Z.to_nat n) l.

From Darr Require Import Gen_frames.

Definition zslice {A} (l : list A) (a b : Z) : list A :=
  firstn (Z.to_nat (b - a)) (skipn (Z.to_nat a) l).
Definition lastn {A} (n : Z) (l : list A) : list A :=
  skipn (length l - Z.to_nat n) l.

(* the image of the input under NumPy's conversion (oracle): element type (None =
   not one of the 13 supported types), trailing shape, rows of bytes *)
Record image := mkImage { im_dt : option (numtype * byteorder); im_tail : list Z; im_rows : list (list Z) }.

Inductive source :=
| SSeq (im : image) (isnd : bool)     (* ndarray (isnd) / list / tuple *)
| SScalar (im : image)                (* a number: stored as a 1-element array *)
| SDarr (im : image)                  (* another Darr array *)
| SIter (chunks : list image)         (* an iterator of chunks (chunklen ignored) *)
| SOther.                             (* anything else *)

Definition default_chunklen (s : source) : Z :=
  match s with
  | SSeq im true | SDarr im =>
      match im_dt im with
      | Some (nt, _) => (80 * 1024 * 1024) / (prodZ (im_tail im) * itemsize nt)
      | None => 1024 * 1024
      end
  | _ => 1024 * 1024
  end.

(* _archunkgenerator: how the input is cut into first-axis chunks *)
Definition archunks (s : source) (chunklen : option Z) : res (list image) :=
  let cl := Z.max (match chunklen with Some c => c | None => default_chunklen s end) 1 in
  match s with
  | SIter chunks => Ok chunks
  | SDarr im =>
      let rows := im_rows im in
      let n := Z.of_nat (length rows) in
      if n =? 0 then Ok [im]
      else match iterindices n cl None None None true with
           | Err e => Err e
           | Ok frames => Ok (map (fun f => mkImage (im_dt im) (im_tail im) (zslice rows (fst f) (snd f))) frames)
           end
  | SSeq im _ =>
      let rows := im_rows im in
      let n := Z.of_nat (length rows) in
      if n =? 0 then Ok [im]
      else match fit_frames n cl None with
           | Err e => Err e
           | Ok (nchunks, _, remainder) =>
               Ok (map (fun i => mkImage (im_dt im) (im_tail im)
                                   (zslice rows (Z.of_nat i * cl) ((Z.of_nat i + 1) * cl)))
                       (seq 0 (Z.to_nat nchunks))
                   ++ (if remainder =? 0 then []
                       else [mkImage (im_dt im) (im_tail im) (lastn remainder rows)]))
           end
  | SScalar im => Ok [im]
  | SOther => Err TypeError
  end.

(* asarray on a path that does not exist yet; metadata: is a non-empty dict given? *)
Definition asarray_m (s : source) (chunklen : option Z) (m : mode) (meta : bool)
  : res (handle * adir) :=
  match archunks s chunklen with
  | Err e => Err e
  | Ok [] => Err OtherError                       (* next() on an empty iterator *)
  | Ok (c0 :: rest) =>
      match im_dt c0 with
      | None => Err TypeError                     (* before anything is created on disk *)
      | Some (nt, bo) =>
          let data := concat (map (fun c => concat (im_rows c)) (c0 :: rest)) in
          let n := fold_left (fun a c => a + Z.of_nat (length (im_rows c))) (c0 :: rest) 0 in
          let ds := mkDescr nt bo (n :: im_tail c0) OrdC in
          let d := mkDir (Some data) (Val ds) (Val (ds, meta)) meta in
          match open_dir d m with
          | Ok h => Ok (h, d)
          | Err e => Err e
          end
      end
  end.

(* _fillgenerator: n rows, produced chunklen rows at a time from the value that
   the fill / fill function gives for first-axis index i (oracle: f i) *)
Definition fillchunks (n cl : Z) (f : Z -> list Z) (dt : option (numtype * byteorder)) (tail : list Z)
  : list image :=
  let cl := cl in
  let nchunks := n / cl in
  let restlen := n mod cl in
  (if n =? 0 then [mkImage dt tail []] else []) ++
  map (fun i => mkImage dt tail (map (fun j => f (Z.of_nat i * cl + Z.of_nat j)) (seq 0 (Z.to_nat cl))))
      (seq 0 (Z.to_nat nchunks))
  ++ (if 0 <? restlen
      then [mkImage dt tail (map (fun j => f (nchunks * cl + Z.of_nat j)) (seq 0 (Z.to_nat restlen)))]
      else []).
