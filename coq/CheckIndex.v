From Coq Require Import ZArith List Bool.
From Darr Require Import Base Index CheckArray.
Import ListNotations.
Open Scope Z_scope.

(* obs: result code, result shape, flat offsets (values of np.arange(..).reshape(shape)[idx]) *)
Definition chk_index (ixs : list idx) (shape : list Z) (rc : Z) (rshp offs : list Z) : bool :=
  match basic_index ixs shape with
  | Ok (sh, os) => (rc =? 0) && zlist_eqb sh rshp && zlist_eqb os offs
  | Err e => res_compat (@Err unit e) rc
  end.
Definition dbg_index (ixs : list idx) (shape : list Z) : list (list Z) :=
  match basic_index ixs shape with Ok (sh, os) => [[0]; sh; os] | Err e => [[exc_code e]] end.
