(* CheckRagged.v -- flattening of ragged model states and comparison with observations
   of the implementation (tie K for RaggedModel.v). No proofs. *)
From Coq Require Import ZArith List Bool.
From Darr Require Import Base ArrayModel RaggedModel CheckArray Spec.
Import ListNotations.
Open Scope Z_scope.

Definition rdescr_flat (j : jfile rdescr) : list Z :=
  match j with
  | Absent => [-1] | Torn => [-2]
  | Val d => [0; rd_len d; rd_size d; numtype_code (rd_nt d); zlen (rd_atom d)] ++ rd_atom d
  end.
Definition rfacts_flat (j : jfile rfacts) : list Z :=
  match j with
  | Absent => [-1] | Torn => [-2]
  | Val f => [0; rf_n f; rf_rank f; numtype_code (rf_nt f); zlen (rf_first f)] ++ rf_first f
             ++ [if rf_dots f then 1 else 0] ++ match rf_last f with None => [-1] | Some l => [l] end
  end.
Definition rhandle_flat (h : rhandle) : list Z :=
  [mode_code (rh_mode h)] ++ handle_flat (rh_v h) ++ handle_flat (rh_i h)
  ++ [rd_len (rh_info h); rd_size (rh_info h); numtype_code (rd_nt (rh_info h)); zlen (rd_atom (rh_info h))]
  ++ rd_atom (rh_info h).
Definition rdir_flat (d : rdir) : list Z :=
  dir_flat (r_values d) ++ dir_flat (r_indices d) ++ rdescr_flat (r_descr d)
  ++ rfacts_flat (r_readme d) ++ [if r_meta d then 1 else 0].
Definition rworld_flat (w : rworld) : list Z := rhandle_flat (fst w) ++ rdir_flat (snd w).

(* reads compared after every step: ra[k] for the listed k (None = a non-integer) *)
Definition read_flat (r : res (list Z)) : list Z :=
  match r with Ok bs => 0 :: zlen bs :: bs | Err e => [exc_code e] end.
Definition reads_flat (w : rworld) (ks : list (option Z)) : list Z :=
  concat (map (fun k => read_flat (rgetitem (fst w) (snd w) k)) ks).

Fixpoint rchk_steps (w : rworld) (ops : list (rop * list (option Z))) (obs : list (Z * list Z * list Z)) : bool :=
  match ops, obs with
  | [], [] => true
  | (o, ks) :: ops', (rc, fl, rd) :: obs' =>
      let '(r, w') := rstep w o in
      res_compat r rc && zlist_eqb (rworld_flat w') fl && zlist_eqb (reads_flat w' ks) rd
      && rchk_steps w' ops' obs'
  | _, _ => false
  end.

Definition rchk_history (c : res rworld) (ks0 : list (option Z)) (ops : list (rop * list (option Z)))
  (obs : list (Z * list Z * list Z)) : bool :=
  match c, obs with
  | Ok w, (0, fl, rd) :: obs' =>
      zlist_eqb (rworld_flat w) fl && zlist_eqb (reads_flat w ks0) rd && rchk_steps w ops obs'
  | Err e, [(rc, _, _)] => res_compat (@Err unit e) rc
  | _, _ => false
  end.

Fixpoint rdbg_steps (w : rworld) (ops : list (rop * list (option Z))) : list (Z * list Z * list Z) :=
  match ops with
  | [] => []
  | (o, ks) :: ops' => let '(r, w') := rstep w o in
                       (res_code r, rworld_flat w', reads_flat w' ks) :: rdbg_steps w' ops'
  end.
Definition rdbg_history (c : res rworld) (ks0 : list (option Z)) (ops : list (rop * list (option Z)))
  : list (Z * list Z * list Z) :=
  match c with
  | Ok w => (0, rworld_flat w, reads_flat w ks0) :: rdbg_steps w ops
  | Err e => [(exc_code e, [], [])]
  end.

(* C05 evaluated on observed files: what a reader of the three descriptors and the two
   data files finds *)
Definition rchk_wf (d : rdir) : bool :=
  match index_rows (r_indices d), a_descr (r_values d), a_data (r_values d), r_descr d with
  | Some idx, Val vds, Some vbytes, Val td =>
      match chain_ok 0 idx with
      | Some N =>
          (N =? lenof (d_shape vds)) && (rd_len td =? zlen idx)
          && (rd_size td =? N * prodZ (tl (d_shape vds))) && zlist_eqb (rd_atom td) (tl (d_shape vds))
          && numtype_eqb (rd_nt td) (d_nt vds)
          && (zlen vbytes =? prodZ (d_shape vds) * itemsize (d_nt vds))
      | None => false
      end
  | _, _, _, _ => false
  end.

From Darr Require Import Crash.
Definition rchk_trace (c : res rworld) (o : rop) (obs : list (list Z)) : bool :=
  match c with
  | Ok w => let '(_, _, es) := rexec w o in
            zll_eqb (dedup (map rdir_flat (snd w :: rtrace_states (snd w) es))) obs
  | Err _ => false
  end.
Definition rdbg_trace (c : res rworld) (o : rop) : list (list Z) :=
  match c with
  | Ok w => let '(_, _, es) := rexec w o in dedup (map rdir_flat (snd w :: rtrace_states (snd w) es))
  | Err _ => []
  end.

(* iter_arrays evaluated on observed files (through a handle opened on them) *)
Definition iter_flat (r : res (list (list Z))) : list Z :=
  match r with
  | Ok l => 0 :: zlen l :: concat (map (fun b => zlen b :: b) l)
  | Err e => [exc_code e]
  end.
Definition rchk_iter (d : rdir) (start : Z) (stop : option Z) (step : Z) (obs : list Z) : bool :=
  match ropen d R with
  | Ok h => zlist_eqb (iter_flat (riter_arrays h d start stop step)) obs
  | Err _ => false
  end.
