(* Json.v -- generic JSON values and Darr's reading of arraydescription.json
   (Array._read_arraydescr + numtype.arrayinfotodtype + _check_arrayinfoconsistency,
   in the order the code performs its checks).  Hand-written model; tied by C18's
   correspondence.  No proofs. *)
From Coq Require Import ZArith List Bool String.
From Darr Require Import Base ArrayModel.
Import ListNotations.
Open Scope Z_scope.

Inductive jval :=
| JNull | JBool (b : bool) | JInt (z : Z) | JFloat | JStr (s : string)
| JList (l : list jval) | JDict (kv : list (string * jval)).

Fixpoint jlookup (k : string) (kv : list (string * jval)) : option jval :=
  match kv with
  | [] => None
  | (k', v) :: t => if String.eqb k k' then Some v else jlookup k t
  end.

Definition numtype_of_name (s : string) : option numtype :=
  find (fun t => String.eqb (numtype_name t) s) all_numtypes.

(* the file: missing, not parseable JSON, or a JSON value *)
Inductive jsonfile := JMissing | JGarbage | JFile (j : jval).

(* tuple(d['shape']) followed by the all-ints test; a JSON boolean passes Darr's own
   test (isinstance(True, int)) -- remembered in the flag, NumPy rejects it later *)
Definition shape_of (v : jval) : res (list Z * bool) :=
  match v with
  | JList l =>
      let step (acc : res (list Z * bool)) (x : jval) :=
        match acc, x with
        | Ok (sh, fl), JInt z => Ok (sh ++ [z], fl)
        | Ok (sh, fl), JBool b => Ok (sh ++ [if b then 1 else 0], true)
        | Ok _, _ => Err TypeError
        | Err e, _ => Err e
        end in
      fold_left step l (Ok ([], false))
  | JStr s => if String.eqb s "" then Ok ([], false) else Err TypeError   (* tuple('') = () *)
  | JDict kv => match kv with [] => Ok ([], false) | _ => Err TypeError end
  | _ => Err TypeError                                                     (* not iterable *)
  end.

Definition read_descr (f : jsonfile) : res (descr * bool) :=
  match f with
  | JMissing => Err OSError
  | JGarbage => Err ValueError
  | JFile (JDict kv) =>
      match jlookup "numtype" kv, jlookup "shape" kv, jlookup "arrayorder" kv, jlookup "darrversion" kv with
      | Some nt, Some sh, Some ao, Some ver =>
          match ver with
          | JStr _ =>
              match shape_of sh with
              | Err e => Err e
              | Ok (shape, hasbool) =>
                  match jlookup "byteorder" kv with
                  | None => Err KeyError
                  | Some bo =>
                      match nt with
                      | JStr nts =>
                          match numtype_of_name nts with
                          | None => Err ValueError
                          | Some t =>
                              match bo with
                              | JStr bos =>
                                  if String.eqb bos "little" || String.eqb bos "big" then
                                    match ao with
                                    | JStr aos =>
                                        if String.eqb aos "C" || String.eqb aos "F" then
                                          Ok (mkDescr t (if String.eqb bos "little" then Little else Big) shape
                                                      (if String.eqb aos "C" then OrdC else OrdF), hasbool)
                                        else Err ValueError
                                    | _ => Err ValueError
                                    end
                                  else Err ValueError
                              | _ => Err ValueError
                              end
                          end
                      | _ => Err ValueError
                      end
                  end
              end
          | _ => Err TypeError                       (* version.Version(non-string) *)
          end
      | _, _, _, _ => Err ValueError                 (* required keys not present *)
      end
  | JFile _ => Err TypeError                         (* json data must be a dictionary *)
  end.

(* Array(path, accessmode): description + size consistency + what NumPy accepts *)
Definition open_json (f : jsonfile) (data : option (list Z)) (m : mode) : res handle :=
  match read_descr f with
  | Err e => Err e
  | Ok (ds, hasbool) =>
      match data with
      | None => Err OSError
      | Some bs =>
          if negb (Z.of_nat (List.length bs) =? prodZ (d_shape ds) * itemsize (d_nt ds)) then Err ValueError
          else if hasbool || negb (forallb (fun x => 0 <=? x) (d_shape ds)) then Err ValueError  (* NumPy *)
          else Ok (mkHandle m (d_nt ds) (d_bo ds) (d_shape ds))
      end
  end.

(* darr.open(path): dispatch on 'darrobject' *)
Definition darr_open (f : jsonfile) (data : option (list Z)) (m : mode) : res handle :=
  match f with
  | JMissing => Err OSError
  | JGarbage => Err ValueError
  | JFile (JDict kv) =>
      match jlookup "darrobject" kv with
      | None => Err KeyError
      | Some (JStr s) => if String.eqb s "Array" then open_json f data m else Err ValueError
      | Some _ => Err ValueError
      end
  | JFile _ => Err TypeError
  end.

(* delete_array(path) / truncate_array(path, i): a path that does not open as an Array
   is refused with TypeError before anything is touched *)
Definition by_path {A} (f : jsonfile) (data : option (list Z)) (op : handle -> res A) : res A :=
  match open_json f data RW with
  | Err _ => Err TypeError
  | Ok h => op h
  end.
