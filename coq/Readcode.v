(* Readcode.v -- darr/readcodearray.py as an executable model, in three layers:
   (1) tokens: what each language's composer takes out of the typedescr_* / endianness_*
       tables (those tables are GENERATED from the source, Gen_tables.v);
   (2) printer: the program text, character for character (tied to Array.readcode by
       string equality over the complete structure space);
   (3) meaning: the documented reading of each target-language construct (DESIGN.md
       Appendix A) as a denotation from the data file's bytes to an array value.
   No proofs. *)
From Coq Require Import ZArith List Bool String Ascii DecimalString.
From Darr Require Import Base ArrayModel Codec Gen_tables.
Import ListNotations.
Open Scope Z_scope.
Open Scope string_scope.
Open Scope list_scope.
Infix "+++" := String.append (at level 60, right associativity).

(* ---------- Python text helpers ---------- *)
Definition nl : string := String (ascii_of_nat 10) EmptyString.
Definition zstr (z : Z) : string := NilZero.string_of_int (Z.to_int z).
Fixpoint sjoin (sep : string) (l : list string) : string :=
  match l with [] => "" | [x] => x | x :: t => x +++ sep +++ sjoin sep t end.
Fixpoint srepeat (s : string) (n : nat) : string :=
  match n with O => "" | S n' => s +++ srepeat s n' end.
Definition pylist (l : list Z) : string := "[" +++ sjoin ", " (map zstr l) +++ "]".
Definition pytuple (l : list Z) : string :=
  match l with [x] => "(" +++ zstr x +++ ",)" | _ => "(" +++ sjoin ", " (map zstr l) +++ ")" end.
Definition len (l : list Z) : Z := Z.of_nat (List.length l).
Definition multi (l : list Z) : bool := Z.ltb 1 (len l).      (* len(shape) > 1 *)

Fixpoint lookup {A} (k : string) (t : list (string * A)) : option A :=
  match t with [] => None | (k', v) :: r => if String.eqb k k' then Some v else lookup k r end.
Definition olookup (k : string) (t : list (string * option string)) : option string :=
  match lookup k t with Some (Some v) => Some v | _ => None end.

Definition bo_name (b : byteorder) : string := match b with Little => "little" | Big => "big" end.
Definition is_complex (t : numtype) : bool := match t with Complex64 | Complex128 => true | _ => false end.
Definition float_of_complex (t : numtype) : numtype :=
  match t with Complex64 => Float32 | Complex128 => Float64 | t => t end.

(* ---------- (1) tokens ---------- *)
Record toks := mkToks {
  t_type : string;      (* type token, as taken from the table *)
  t_end : string;       (* byte-order token *)
  t_fn : string;        (* Scilab: mget / mgeti *)
  t_cplx : bool;        (* the complex work-around branch is taken *)
  t_skip : Z;           (* Matlab complex: bytes skipped after each value *)
  t_half : bool         (* Matlab float16: read uint16, then half.typecast *)
}.

Definition array_languages : list string :=      (* sorted as Python sorts them *)
  ["R"; "darr"; "idl"; "julia_ver0"; "julia_ver1"; "maple"; "mathematica"; "matlab";
   "numpy"; "numpymemmap"; "python"; "scilab"].

Definition simple_toks (ty : list (string * option string)) (en : list (string * string))
           (nt : numtype) (bo : byteorder) : option toks :=
  match olookup (numtype_name nt) ty, lookup (bo_name bo) en with
  | Some t, Some e => Some (mkToks t e "" false 0 false)
  | _, _ => None
  end.

Definition toks_of (lang : string) (nt : numtype) (bo : byteorder) (ignoreint64 : bool) : option toks :=
  if String.eqb lang "darr" then Some (mkToks "" "" "" false 0 false)
  else if String.eqb lang "numpy" || String.eqb lang "numpymemmap" then simple_toks typedescr_numpy endianness_numpy nt bo
  else if String.eqb lang "idl" then simple_toks typedescr_idl endianness_idl nt bo
  else if String.eqb lang "julia_ver0" || String.eqb lang "julia_ver1" then simple_toks typedescr_julia endianness_julia nt bo
  else if String.eqb lang "mathematica" then simple_toks typedescr_mathematica endianness_mathematica nt bo
  else if String.eqb lang "maple" then simple_toks typedescr_maple endianness_maple nt bo
  else if String.eqb lang "python" then
    match simple_toks typedescr_python endianness_python nt bo with
    | Some t => Some (mkToks (t_type t) (t_end t) "" (is_complex nt) 0 false)
    | None => None
    end
  else if String.eqb lang "R" then
    if numtype_eqb nt Int64 && negb ignoreint64 then None
    else simple_toks typedescr_r endianness_r nt bo
  else if String.eqb lang "matlab" then
    match olookup (numtype_name nt) typedescr_matlab, lookup (bo_name bo) endianness_matlab with
    | Some t, Some e =>
        if is_complex nt then
          match olookup (numtype_name (float_of_complex nt)) typedescr_matlab with
          | Some tf => Some (mkToks tf e "" true (itemsize (float_of_complex nt)) false)
          | None => None
          end
        else Some (mkToks t e "" false 0 (numtype_eqb nt Float16))
    | _, _ => None
    end
  else if String.eqb lang "scilab" then
    match olookup (numtype_name nt) typedescr_scilab with
    | Some _ =>
        let nt' := if is_complex nt then float_of_complex nt else nt in
        match olookup (numtype_name nt') typedescr_scilab, olookup (numtype_name nt') readfunc_scilab,
              lookup (bo_name bo) endianness_scilab with
        | Some t, Some f, Some e => Some (mkToks t e f (is_complex nt) 0 false)
        | _, _, _ => None
        end
    | None => None
    end
  else None.

(* ---------- (2) the plan (tokens + what the composer derives from the shape) and its text ---------- *)
Record plan := mkPlan {
  p_lang : string; p_toks : toks; p_shape : list Z;   (* shape as in the descriptor *)
  p_path : string; p_var : string
}.

Definition plan_of (lang : string) (nt : numtype) (shape : list Z) (bo : byteorder)
           (path var : string) (ignoreint64 : bool) : option plan :=
  match toks_of lang nt bo ignoreint64 with
  | Some t => if String.eqb lang "python" && multi shape then None
              else Some (mkPlan lang t shape path var)
  | None => None
  end.

Definition split_triple (s : string) : list string :=          (* "a|b|c" *)
  let fix go (s : string) (cur : string) : list string :=
    match s with
    | EmptyString => [cur]
    | String c r => if Ascii.eqb c "|"%char then cur :: go r "" else go r (cur +++ String c EmptyString)
    end in go s "".
Definition nth_s (n : nat) (l : list string) : string := nth n l "".

(* the mode token with which each program opens the data file ("" = the construct has none
   and is read-only by definition: fromfile, fopen(path), read_binary, BinaryReadList, Read) *)
Definition open_mode (l : string) : string :=
  if String.eqb l "numpymemmap" then "r"
  else if String.eqb l "python" || String.eqb l "R" || String.eqb l "scilab" then "rb"
  else if String.eqb l "julia_ver0" || String.eqb l "julia_ver1" then "r"
  else "".

Definition print_plan (p : plan) : string :=
  let t := p_toks p in let v := p_var p in let fp := p_path p in let shape := p_shape p in
  let l := p_lang p in
  if String.eqb l "darr" then
    "import darr" +++ nl +++ "# path_to_data_dir is the directory that contains this README" +++ nl
    +++ v +++ " = darr.Array(path='path_to_data_dir')" +++ nl
  else if String.eqb l "numpy" then
    "import numpy as np" +++ nl +++ v +++ " = np.fromfile('" +++ fp +++ "', dtype='" +++ t_end t +++ t_type t +++ "')" +++ nl
    +++ (if multi shape then v +++ " = " +++ v +++ ".reshape(" +++ pytuple shape +++ ", order='C')" +++ nl else "")
  else if String.eqb l "numpymemmap" then
    "import numpy as np" +++ nl +++ v +++ " = np.memmap('" +++ fp +++ "', dtype='" +++ t_end t +++ t_type t
    +++ "', shape=" +++ pytuple shape +++ ", order='C', mode='" +++ open_mode l +++ "')" +++ nl
  else if String.eqb l "scilab" then
    let sh := rev (if t_cplx t then shape ++ [2] else shape) in
    "fileid = mopen(""" +++ fp +++ """, """ +++ open_mode l +++ """);" +++ nl
    +++ v +++ " = " +++ t_fn t +++ "(" +++ zstr (prodZ sh) +++ ", """ +++ t_type t +++ t_end t +++ """, fileid);" +++ nl
    +++ (if multi sh then v +++ " = matrix(" +++ v +++ ", " +++ pylist sh +++ ");" +++ nl else "")
    +++ "mclose(fileid);" +++ nl
    +++ (if t_cplx t then
          let dimstr := srepeat ",:" (List.length shape) in
          v +++ " = complex(squeeze(" +++ v +++ "(1" +++ dimstr +++ ")),squeeze(" +++ v +++ "(2" +++ dimstr +++ ")));" +++ nl
        else "")
  else if String.eqb l "matlab" then
    let sh := rev shape in let size := zstr (prodZ sh) in let ndim := len sh in
    if t_cplx t then
      let rd (sub : string) :=
        if Z.eqb ndim 1 then sub +++ " = fread(fileid, " +++ size +++ ", '*" +++ t_type t +++ "', " +++ zstr (t_skip t) +++ ",'" +++ t_end t +++ "');" +++ nl
        else if Z.eqb ndim 2 then sub +++ " = fread(fileid, " +++ pylist sh +++ ", '*" +++ t_type t +++ "', " +++ zstr (t_skip t) +++ ", '" +++ t_end t +++ "');" +++ nl
        else sub +++ " = reshape(fread(fileid, " +++ size +++ ", '*" +++ t_type t +++ "', " +++ zstr (t_skip t) +++ ", '" +++ t_end t +++ "'), " +++ pylist sh +++ ");" +++ nl in
      "fileid = fopen('" +++ fp +++ "');" +++ nl
      +++ rd "re"
      +++ "fseek(fileid, " +++ zstr (t_skip t) +++ ", 'bof'); % to read imaginary numbers" +++ nl
      +++ rd "im"
      +++ "fclose(fileid);" +++ nl +++ v +++ " = complex(re, im);" +++ nl
    else
      "fileid = fopen('" +++ fp +++ "');" +++ nl
      +++ (if Z.eqb ndim 1 then v +++ " = fread(fileid, " +++ size +++ ", '*" +++ t_type t +++ "', '" +++ t_end t +++ "');" +++ nl
          else if Z.eqb ndim 2 then v +++ " = fread(fileid, " +++ pylist sh +++ ", '*" +++ t_type t +++ "', '" +++ t_end t +++ "');" +++ nl
          else v +++ " = reshape(fread(fileid, " +++ size +++ ", '*" +++ t_type t +++ "', '" +++ t_end t +++ "'), " +++ pylist sh +++ ");" +++ nl)
      +++ (if t_half t then v +++ " = half.typecast(" +++ v +++ "); % may not work in Octave yet" +++ nl else "")
      +++ "fclose(fileid);" +++ nl
  else if String.eqb l "R" then
    let tr := split_triple (t_type t) in let sh := rev shape in
    "fileid <- file(""" +++ fp +++ """, """ +++ open_mode l +++ """)" +++ nl
    +++ v +++ " <- readBin(con=fileid, what=" +++ nth_s 0 tr +++ ", n=" +++ zstr (prodZ sh) +++ ", size=" +++ nth_s 1 tr
    +++ ", signed=" +++ nth_s 2 tr +++ ", endian=""" +++ t_end t +++ """)" +++ nl
    +++ (if multi sh then v +++ " <- array(data=" +++ v +++ ", dim=c" +++ pytuple sh +++ ", dimnames=NULL)" +++ nl else "")
    +++ "close(fileid)" +++ nl
  else if String.eqb l "julia_ver0" then
    "fileid = open(""" +++ fp +++ """,""" +++ open_mode l +++ """);" +++ nl
    +++ v +++ " = map(" +++ t_end t +++ ", read(fileid, " +++ t_type t +++ ", " +++ pytuple (rev shape) +++ "));" +++ nl
    +++ "close(fileid);" +++ nl
  else if String.eqb l "julia_ver1" then
    "fileid = open(""" +++ fp +++ """,""" +++ open_mode l +++ """);" +++ nl
    +++ v +++ " = map(" +++ t_end t +++ ", read!(fileid, Array{" +++ t_type t +++ "}(undef, " +++ sjoin ", " (map zstr (rev shape)) +++ ")));" +++ nl
    +++ "close(fileid);" +++ nl
  else if String.eqb l "idl" then
    v +++ " = read_binary(""" +++ fp +++ """, data_type=" +++ t_type t +++ ", data_dims=" +++ pylist (rev shape)
    +++ ", endian=""" +++ t_end t +++ """)" +++ nl
  else if String.eqb l "mathematica" then
    v +++ " = BinaryReadList[""" +++ fp +++ """, """ +++ t_type t +++ """, ByteOrdering -> " +++ t_end t +++ "];" +++ nl
    +++ v +++ " = ArrayReshape[" +++ v +++ ", {" +++ sjoin ", " (map zstr shape) +++ "}];" +++ nl
  else if String.eqb l "maple" then
    v +++ " := FileTools[Binary][Read](""" +++ fp +++ """, " +++ t_type t +++ ", byteorder=" +++ t_end t +++ ", output=Array);" +++ nl
    +++ "FileTools[Binary][Close](""" +++ fp +++ """);" +++ nl
    +++ (if multi shape then v +++ " := ArrayTools[Reshape](" +++ v +++ ", " +++ pylist (rev shape) +++ ");" +++ nl else "")
  else if String.eqb l "python" then
    let size := (hd 0 shape) * (if t_cplx t then 2 else 1) in
    let fptype := if String.eqb (t_type t) "f" then "float" else "double" in
    "import array" +++ nl +++ "import struct" +++ nl
    +++ (if t_cplx t then "# file holds complex values but we need to read them as " +++ fptype +++ " type" +++ nl else "")
    +++ "with open('" +++ fp +++ "', '" +++ open_mode l +++ "') as f:" +++ nl
    +++ "    " +++ v +++ " = array.array('" +++ t_type t +++ "', struct.unpack('" +++ t_end t +++ zstr size +++ t_type t +++ "', f.read()))" +++ nl
    +++ (if t_cplx t then
          "# array '" +++ v +++ "' has real and imaginary values at alternating positions" +++ nl
          +++ "# we can split them into separate arrays" +++ nl
          +++ "real = array.array('" +++ t_type t +++ "', (" +++ v +++ "[i] for i in range(0, len(" +++ v +++ "), 2)))" +++ nl
          +++ "imag = array.array('" +++ t_type t +++ "', (" +++ v +++ "[i] for i in range(1, len(" +++ v +++ "), 2)))" +++ nl
        else "")
  else "".

(* path handling of readcode(): abspath -> resolved absolute data path; basepath -> joined *)
Inductive pathmode := PRel | PBase (base : string) | PAbs (absdir : string).
Definition file_of (m : pathmode) (name : string) : string :=
  match m with
  | PRel => name
  | PBase b => if String.eqb b "" || String.eqb b "." then name else b +++ "/" +++ name
  | PAbs d => d +++ "/" +++ name
  end.

Definition readcode_array (lang : string) (nt : numtype) (shape : list Z) (bo : byteorder)
           (m : pathmode) (var : string) (ignoreint64 : bool) : option string :=
  option_map print_plan (plan_of lang nt shape bo (file_of m "arrayvalues.bin") var ignoreint64).

Definition readcodelanguages (nt : numtype) (shape : list Z) (bo : byteorder) : list string :=
  filter (fun l => match plan_of l nt shape bo "arrayvalues.bin" "a" false with Some _ => true | None => false end)
         array_languages.

(* ---------- documented compatibility table (docs/readcode.rst, generated) ---------- *)
Definition doc_column (lang : string) : string :=
  if String.eqb lang "idl" then "IDL"
  else if String.eqb lang "julia_ver0" || String.eqb lang "julia_ver1" then "Julia"
  else if String.eqb lang "maple" then "Maple" else if String.eqb lang "mathematica" then "Mathematica"
  else if String.eqb lang "matlab" then "Matlab"
  else if String.eqb lang "numpy" || String.eqb lang "numpymemmap" then "Numpy"
  else if String.eqb lang "python" then "Python" else if String.eqb lang "R" then "R"
  else if String.eqb lang "scilab" then "Scilab" else "".
Fixpoint index_of (k : string) (l : list string) : option nat :=
  match l with [] => None | x :: t => if String.eqb k x then Some O else option_map S (index_of k t) end.
Definition doc_cell (table : list (string * list bool)) (cols : list string) (row col : string) : bool :=
  match lookup row table, index_of col cols with
  | Some r, Some i => nth i r false
  | _, _ => false
  end.
(* darr itself is always offered; every other language per the two tables *)
Definition doc_offered (lang : string) (nt : numtype) (rank : Z) : bool :=
  if String.eqb lang "darr" then true
  else doc_cell doc_array doc_array_columns (numtype_name nt) (doc_column lang)
       && doc_cell doc_ragged doc_ragged_columns (if Z.eqb rank 1 then "1-D array" else "N-D array") (doc_column lang).

(* ---------- (3) meaning ---------- *)
(* what a token reads: the numeric type (as Darr names it) and the byte order *)
Definition sem_table (lang : string) : list (string * numtype) :=
  if String.eqb lang "numpy" || String.eqb lang "numpymemmap" then
    [("i1", Int8); ("i2", Int16); ("i4", Int32); ("i8", Int64); ("u1", UInt8); ("u2", UInt16); ("u4", UInt32);
     ("u8", UInt64); ("f2", Float16); ("f4", Float32); ("f8", Float64); ("c8", Complex64); ("c16", Complex128)]
  else if String.eqb lang "python" then     (* struct, standard sizes (a byte-order prefix is always present) *)
    [("b", Int8); ("h", Int16); ("l", Int32); ("i", Int32); ("q", Int64); ("B", UInt8); ("H", UInt16); ("L", UInt32);
     ("I", UInt32); ("Q", UInt64); ("e", Float16); ("f", Float32); ("d", Float64)]
  else if String.eqb lang "R" then          (* readBin(what, size, signed): unsigned only for sizes 1, 2 *)
    [("integer()|1|TRUE", Int8); ("integer()|2|TRUE", Int16); ("integer()|4|TRUE", Int32); ("integer()|8|TRUE", Int64);
     ("integer()|1|FALSE", UInt8); ("integer()|2|FALSE", UInt16); ("numeric()|4|TRUE", Float32);
     ("numeric()|8|TRUE", Float64); ("double()|8|TRUE", Float64); ("complex()|16|TRUE", Complex128)]
  else if String.eqb lang "matlab" then     (* fread precision '*T' *)
    [("int8", Int8); ("int16", Int16); ("int32", Int32); ("int64", Int64); ("uint8", UInt8); ("uint16", UInt16);
     ("uint32", UInt32); ("uint64", UInt64); ("float32", Float32); ("single", Float32); ("float64", Float64); ("double", Float64)]
  else if String.eqb lang "scilab" then     (* mget / mgeti type letters *)
    [("c", Int8); ("s", Int16); ("i", Int32); ("l", Int64); ("uc", UInt8); ("us", UInt16); ("ui", UInt32); ("ul", UInt64);
     ("f", Float32); ("d", Float64)]
  else if String.eqb lang "julia_ver0" || String.eqb lang "julia_ver1" then
    [("Int8", Int8); ("Int16", Int16); ("Int32", Int32); ("Int64", Int64); ("UInt8", UInt8); ("UInt16", UInt16);
     ("UInt32", UInt32); ("UInt64", UInt64); ("Float16", Float16); ("Float32", Float32); ("Float64", Float64);
     ("Complex{Float32}", Complex64); ("Complex{Float64}", Complex128); ("ComplexF32", Complex64); ("ComplexF64", Complex128)]
  else if String.eqb lang "idl" then        (* IDL type codes *)
    [("1", UInt8); ("2", Int16); ("3", Int32); ("4", Float32); ("5", Float64); ("6", Complex64); ("9", Complex128);
     ("12", UInt16); ("13", UInt32); ("14", Int64); ("15", UInt64)]
  else if String.eqb lang "mathematica" then
    [("Integer8", Int8); ("Integer16", Int16); ("Integer32", Int32); ("Integer64", Int64); ("UnsignedInteger8", UInt8);
     ("UnsignedInteger16", UInt16); ("UnsignedInteger32", UInt32); ("UnsignedInteger64", UInt64);
     ("Real32", Float32); ("Real64", Float64); ("Complex64", Complex64); ("Complex128", Complex128)]
  else if String.eqb lang "maple" then
    [("integer[1]", Int8); ("integer[2]", Int16); ("integer[4]", Int32); ("integer[8]", Int64);
     ("float[4]", Float32); ("float[8]", Float64)]
  else [].

Definition sem_endian (lang : string) : list (string * byteorder) :=
  if String.eqb lang "numpy" || String.eqb lang "numpymemmap" || String.eqb lang "python" then [("<", Little); (">", Big)]
  else if String.eqb lang "R" || String.eqb lang "idl" || String.eqb lang "maple" then [("little", Little); ("big", Big)]
  else if String.eqb lang "matlab" then [("ieee-le", Little); ("ieee-be", Big); ("l", Little); ("b", Big)]
  else if String.eqb lang "scilab" then [("l", Little); ("b", Big)]
  else if String.eqb lang "julia_ver0" || String.eqb lang "julia_ver1" then [("ltoh", Little); ("ntoh", Big)]
  else if String.eqb lang "mathematica" then [("-1", Little); ("+1", Big); ("1", Big)]
  else [].

(* Scilab: mgeti returns integers of the letter's type; mget returns doubles, exact only for f / d *)
Definition scilab_fn_ok (fn : string) (t : numtype) : bool :=
  match t with
  | Float32 | Float64 => String.eqb fn "mget"
  | Float16 | Complex64 | Complex128 => false
  | _ => String.eqb fn "mgeti"
  end.

Inductive order := RowMajor | ColMajor.
Definition lang_order (lang : string) : order :=
  if String.eqb lang "darr" || String.eqb lang "numpy" || String.eqb lang "numpymemmap"
     || String.eqb lang "python" || String.eqb lang "mathematica" then RowMajor else ColMajor.

(* an array value in a target language *)
Record aval := mkA { a_nt : numtype; a_dims : list Z; a_ord : order; a_flat : list (list Z) }.
Inductive dres := DArr (a : aval) | DPair (re im : aval).

(* offset of an index: row-major = last index fastest, column-major = first index fastest *)
Fixpoint rowmajor_off (dims idx : list Z) (acc : Z) : Z :=
  match dims, idx with d :: ds, i :: is_ => rowmajor_off ds is_ (acc * d + i) | _, _ => acc end.
Fixpoint colmajor_off (dims idx : list Z) : Z :=
  match dims, idx with d :: ds, i :: is_ => i + d * colmajor_off ds is_ | _, _ => 0 end.
Fixpoint in_range (dims idx : list Z) : bool :=
  match dims, idx with
  | [], [] => true
  | d :: ds, i :: is_ => Z.leb 0 i && Z.ltb i d && in_range ds is_
  | _, _ => false
  end.
Definition offset (o : order) (dims idx : list Z) : Z :=
  match o with RowMajor => rowmajor_off dims idx 0 | ColMajor => colmajor_off dims idx end.
Definition aget (a : aval) (idx : list Z) : option (list Z) :=
  if in_range (a_dims a) idx then nth_error (a_flat a) (Z.to_nat (offset (a_ord a) (a_dims a) idx)) else None.

(* read `n` values of type t, byte order b, from the start of the file *)
Definition read_n (t : numtype) (b : byteorder) (n : Z) (bytes : list Z) : option (list (list Z)) :=
  if Z.leb 0 n && Z.leb (n * itemsize t) (Z.of_nat (List.length bytes))
  then Some (decode t b (Z.to_nat n) bytes) else None.
(* read to the end of the file *)
Definition read_all (t : numtype) (b : byteorder) (bytes : list Z) : option (list (list Z)) :=
  read_n t b (Z.of_nat (List.length bytes) / itemsize t) bytes.
(* Matlab fread(fid, n, precision, skip, fmt): after each value, `skip` bytes are skipped *)
Fixpoint read_skip (t : numtype) (b : byteorder) (skip : Z) (n : nat) (bytes : list Z) : option (list (list Z)) :=
  match n with
  | O => Some []
  | S n' =>
      let k := Z.to_nat (itemsize t) in
      if (List.length bytes <? k)%nat then None
      else match read_skip t b skip n' (skipn (k + Z.to_nat skip) bytes) with
           | Some r => Some (swap_elem t b (firstn k bytes) :: r)
           | None => None
           end
  end.

Fixpoint evens (l : list (list Z)) : list (list Z) :=
  match l with x :: _ :: t => x :: evens t | [x] => [x] | [] => [] end.
Fixpoint odds (l : list (list Z)) : list (list Z) :=
  match l with _ :: y :: t => y :: odds t | _ => [] end.
Fixpoint zip_app (a b : list (list Z)) : list (list Z) :=
  match a, b with x :: a', y :: b' => (x ++ y) :: zip_app a' b' | _, _ => [] end.
Definition complex_of (t : numtype) : option numtype :=
  match t with Float32 => Some Complex64 | Float64 => Some Complex128 | _ => None end.

(* the array described by the descriptor; what darr.Array(path) returns (C02) *)
Definition denote_darr (nt : numtype) (shape : list Z) (bo : byteorder) (bytes : list Z) : option dres :=
  match read_n nt bo (prodZ shape) bytes with
  | Some fl => Some (DArr (mkA nt shape RowMajor fl))
  | None => None
  end.

Definition denote (p : plan) (descr : numtype * byteorder) (bytes : list Z) : option dres :=
  let l := p_lang p in let t := p_toks p in let shape := p_shape p in
  if String.eqb l "darr" then denote_darr (fst descr) shape (snd descr) bytes
  else
  match lookup (t_type t) (sem_table l), lookup (t_end t) (sem_endian l) with
  | Some ty, Some b =>
    if String.eqb l "numpy" then                (* fromfile reads everything; reshape must fit *)
      match read_all ty b bytes with
      | Some fl => if multi shape
                   then (if Z.eqb (Z.of_nat (List.length fl)) (prodZ shape) then Some (DArr (mkA ty shape RowMajor fl)) else None)
                   else Some (DArr (mkA ty [Z.of_nat (List.length fl)] RowMajor fl))
      | None => None end
    else if String.eqb l "numpymemmap" then
      match read_n ty b (prodZ shape) bytes with
      | Some fl => Some (DArr (mkA ty shape RowMajor fl)) | None => None end
    else if String.eqb l "python" then           (* struct.unpack: the buffer must have exactly the size *)
      let n := hd 0 shape * (if t_cplx t then 2 else 1) in
      if negb (Z.eqb (n * itemsize ty) (Z.of_nat (List.length bytes))) then None else
      match read_n ty b n bytes with
      | Some fl => if t_cplx t
                   then Some (DPair (mkA ty [Z.of_nat (List.length (evens fl))] RowMajor (evens fl))
                                    (mkA ty [Z.of_nat (List.length (odds fl))] RowMajor (odds fl)))
                   else Some (DArr (mkA ty [n] RowMajor fl))
      | None => None end
    else if String.eqb l "mathematica" then      (* BinaryReadList to EOF, ArrayReshape row-major *)
      match read_all ty b bytes with
      | Some fl => if Z.eqb (Z.of_nat (List.length fl)) (prodZ shape) then Some (DArr (mkA ty shape RowMajor fl)) else None
      | None => None end
    else if String.eqb l "maple" then            (* Read to EOF; Reshape in Fortran order *)
      match read_all ty b bytes with
      | Some fl => if multi shape
                   then (if Z.eqb (Z.of_nat (List.length fl)) (prodZ shape) then Some (DArr (mkA ty (rev shape) ColMajor fl)) else None)
                   else Some (DArr (mkA ty [Z.of_nat (List.length fl)] ColMajor fl))
      | None => None end
    else if String.eqb l "R" || String.eqb l "idl" || String.eqb l "julia_ver0" || String.eqb l "julia_ver1" then
      match read_n ty b (prodZ (rev shape)) bytes with
      | Some fl => Some (DArr (mkA ty (rev shape) ColMajor fl)) | None => None end
    else if String.eqb l "matlab" then
      if t_cplx t then                            (* two strided passes, then complex(re, im) *)
        let n := Z.to_nat (prodZ (rev shape)) in
        match complex_of ty, read_skip ty b (t_skip t) n bytes,
              read_skip ty b (t_skip t) n (skipn (Z.to_nat (t_skip t)) bytes) with
        | Some cty, Some re, Some im => Some (DArr (mkA cty (rev shape) ColMajor (zip_app re im)))
        | _, _, _ => None end
      else
        match read_n ty b (prodZ (rev shape)) bytes with
        | Some fl =>
            if t_half t then (if numtype_eqb ty UInt16 then Some (DArr (mkA Float16 (rev shape) ColMajor fl)) else None)
            else Some (DArr (mkA ty (rev shape) ColMajor fl))
        | None => None end
    else if String.eqb l "scilab" then
      if negb (scilab_fn_ok (t_fn t) ty) then None else
      if t_cplx t then                            (* float array with an extra fastest axis of length 2 *)
        match complex_of ty, read_n ty b (prodZ (rev (shape ++ [2]))) bytes with
        | Some cty, Some fl => Some (DArr (mkA cty (rev shape) ColMajor (zip_app (evens fl) (odds fl))))
        | _, _ => None end
      else
        match read_n ty b (prodZ (rev shape)) bytes with
        | Some fl => Some (DArr (mkA ty (rev shape) ColMajor fl)) | None => None end
    else None
  | _, _ => None
  end.

(* does a mode token let the program change the file?  (np.memmap: r, c read-only / copy-on-write,
   r+ and w+ write through; open/file/mopen: anything with w, a or + writes) *)
Fixpoint has_char (c : ascii) (s : string) : bool :=
  match s with EmptyString => false | String d r => Ascii.eqb c d || has_char c r end.
Definition mode_writes (l tok : string) : bool :=
  if String.eqb tok "" then false
  else if String.eqb l "numpymemmap" then negb (String.eqb tok "r" || String.eqb tok "c")
  else has_char "w"%char tok || has_char "a"%char tok || has_char "+"%char tok.
Definition writes (p : plan) : bool := mode_writes (p_lang p) (open_mode (p_lang p)).
