(* Meta.v -- executable model of darr.metadata.MetaData on metadata.json.
   Keys are strings (lists of code points, ordered as Python orders str); values are
   opaque (their JSON round trip, flattened by the harness).  The file always holds the
   dictionary sorted by key (json.dumps(sort_keys=True)); no metadata = no file. *)
From Coq Require Import ZArith List Bool.
From Darr Require Import Base.
Import ListNotations.
Open Scope Z_scope.

Definition key := list Z.
Definition val := list Z.
Definition dict := list (key * val).

Fixpoint key_cmp (a b : key) : comparison :=
  match a, b with
  | [], [] => Eq
  | [], _ :: _ => Lt
  | _ :: _, [] => Gt
  | x :: a', y :: b' => match Z.compare x y with Eq => key_cmp a' b' | c => c end
  end.
Definition key_eqb (a b : key) : bool := match key_cmp a b with Eq => true | _ => false end.

Fixpoint insert (k : key) (v : val) (d : dict) : dict :=
  match d with
  | [] => [(k, v)]
  | (k', v') :: t =>
      match key_cmp k k' with
      | Lt => (k, v) :: d
      | Eq => (k, v) :: t
      | Gt => (k', v') :: insert k v t
      end
  end.
Definition remove (k : key) (d : dict) : dict := filter (fun p => negb (key_eqb k (fst p))) d.
Fixpoint lookup (k : key) (d : dict) : option val :=
  match d with
  | [] => None
  | (k', v) :: t => if key_eqb k k' then Some v else lookup k t
  end.
Definition update_all (kvs : dict) (d : dict) : dict := fold_left (fun d p => insert (fst p) (snd p) d) kvs d.

Record mstate := mkM { m_file : jfile dict; m_mode : mode }.

(* MetaData._read *)
Definition m_read (s : mstate) : res dict :=
  match m_file s with Absent => Ok [] | Val d => Ok d | Torn => Err ValueError end.

Inductive mop :=
| MUpdate (kvs : option dict)          (* None: some value is not JSON-serialisable *)
| MPop (k : key) (default : bool)
| MPopItem
| MDel (k : key)                       (* del metadata[k] *)
| MSetMode (m : mode)
| MReopen.                             (* a fresh MetaData object on the same file *)

Inductive mout :=
| ONone | OVal (v : val) | ODefault | OItem (k : key) (v : val) | OErr (e : exc).

(* write the dictionary (non-empty) or make sure there is no file *)
Definition store (d : dict) (old : jfile dict) : jfile dict :=
  match d with [] => Absent | _ => Val d end.

Definition m_step (s : mstate) (o : mop) : mout * mstate :=
  match o with
  | MSetMode m => (ONone, mkM (m_file s) m)
  | MReopen => (ONone, s)
  | MUpdate kvs =>
      match m_mode s with
      | R => (OErr OSError, s)
      | RW =>
        match m_read s with
        | Err e => (OErr e, s)
        | Ok d =>
          match kvs with
          | None => (OErr TypeError, s)                         (* json.dumps fails first *)
          | Some kvs =>
              let d' := update_all kvs d in
              match d' with
              | [] => (ONone, s)                                 (* nothing to store: no file *)
              | _ => (ONone, mkM (Val d') RW)
              end
          end
        end
      end
  | MPop k default =>
      match m_mode s with
      | R => (OErr OSError, s)
      | RW =>
        match m_read s with
        | Err e => (OErr e, s)
        | Ok d =>
          match lookup k d with
          | None => if default
                    then (ODefault, match d with [] => s | _ => mkM (Val d) RW end)
                    else (OErr KeyError, s)
          | Some v => (OVal v, mkM (store (remove k d) (m_file s)) RW)
          end
        end
      end
  | MDel k =>
      match m_mode s with
      | R => (OErr OSError, s)
      | RW =>
        match m_read s with
        | Err e => (OErr e, s)
        | Ok d =>
          match lookup k d with
          | None => (OErr KeyError, s)
          | Some v => (ONone, mkM (store (remove k d) (m_file s)) RW)
          end
        end
      end
  | MPopItem =>
      match m_mode s with
      | R => (OErr OSError, s)
      | RW =>
        match m_read s with
        | Err e => (OErr e, s)
        | Ok d =>
          match rev d with
          | [] => (OErr KeyError, s)
          | (k, v) :: _ => (OItem k v, mkM (store (remove k d) (m_file s)) RW)
          end
        end
      end
  end.

Definition m_run (s : mstate) (os : list mop) : mstate := fold_left (fun s o => snd (m_step s o)) os s.

(* crash states of a metadata change: the file being rewritten is emptied / partly
   written (not parseable), an unlink is atomic *)
Definition m_crash_states (s : mstate) (o : mop) : list (jfile dict) :=
  let s' := snd (m_step s o) in
  match m_file s' with
  | Val _ => [m_file s; Torn; m_file s']
  | _ => [m_file s; m_file s']
  end.
