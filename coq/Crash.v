(* Crash.v -- which on-disk states a crash can expose while a list of effects runs:
   any state between two whole effects, or a torn form of the effect in progress.
   (definitions only; the theorems are in Proofs/CrashSafe.v) *)
From Coq Require Import ZArith List Bool.
From Darr Require Import Base ArrayModel.
Import ListNotations.
Open Scope Z_scope.

Definition set_data (d : adir) (x : option (list Z)) : adir := mkDir x (a_descr d) (a_readme d) (a_meta d).
Definition set_descr (d : adir) (x : jfile descr) : adir := mkDir (a_data d) x (a_readme d) (a_meta d).
Definition set_readme (d : adir) (x : jfile facts) : adir := mkDir (a_data d) (a_descr d) x (a_meta d).

(* torn e d s : s is visible while effect e is being carried out from d.
   - writing a whole file (open(..,'w'/'wb')): the file is emptied first, then holds any
     prefix; a partly written JSON/README text is not parseable (H-json-prefix: no
     strict prefix of json.dumps of a dict parses) -> Torn
   - appending: any prefix of the appended bytes has arrived
   - truncate / unlink: atomic *)
Inductive torn : eff -> adir -> adir -> Prop :=
| torn_write : forall bs p q d, bs = p ++ q -> torn (EWriteData bs) d (set_data d (Some p))
| torn_append : forall bs p q d, bs = p ++ q ->
    torn (EAppendData bs) d (set_data d (option_map (fun x => x ++ p) (a_data d)))
| torn_poke : forall off bs p q d, bs = p ++ q ->
    torn (EPokeData off bs) d (apply_eff (EPokeData off p) d)
| torn_descr : forall ds d, torn (EWriteDescr ds) d (set_descr d Torn)
| torn_readme : forall f d, torn (EWriteReadme f) d (set_readme d Torn).

Inductive crash : adir -> list eff -> adir -> Prop :=
| crash_here : forall d es, crash d es d
| crash_torn : forall d e es s, torn e d s -> crash d (e :: es) s
| crash_later : forall d e es s, crash (apply_eff e d) es s -> crash d (e :: es) s.

(* the states the implementation is OBSERVED in between two executed source lines
   (what the settrace harness records): for whole-file text writes the emptied file,
   then the complete one; for data effects the complete effect *)
Definition trace_of (e : eff) (d : adir) : list adir :=
  match e with
  | EWriteDescr _ => [set_descr d Torn; apply_eff e d]
  | EWriteReadme _ => [set_readme d Torn; apply_eff e d]
  | _ => [apply_eff e d]
  end.
Fixpoint trace_states (d : adir) (es : list eff) : list adir :=
  match es with
  | [] => []
  | e :: es' => trace_of e d ++ trace_states (apply_eff e d) es'
  end.

(* ---------- RaggedArray directories ---------- *)
From Darr Require Import RaggedModel.

Inductive rtorn : reff -> rdir -> rdir -> Prop :=
| rtorn_v : forall e d a, torn e (r_values d) a ->
    rtorn (RV e) d (mkRDir a (r_indices d) (r_descr d) (r_readme d) (r_meta d))
| rtorn_i : forall e d a, torn e (r_indices d) a ->
    rtorn (RI e) d (mkRDir (r_values d) a (r_descr d) (r_readme d) (r_meta d))
| rtorn_descr : forall x d, rtorn (RWriteDescr x) d (mkRDir (r_values d) (r_indices d) Torn (r_readme d) (r_meta d))
| rtorn_readme : forall x d, rtorn (RWriteReadme x) d (mkRDir (r_values d) (r_indices d) (r_descr d) Torn (r_meta d)).

Inductive rcrash : rdir -> list reff -> rdir -> Prop :=
| rcrash_here : forall d es, rcrash d es d
| rcrash_torn : forall d e es s, rtorn e d s -> rcrash d (e :: es) s
| rcrash_later : forall d e es s, rcrash (apply_reff e d) es s -> rcrash d (e :: es) s.

(* what opening a ragged directory shows: RaggedArray() needs both sub-arrays to open;
   the subarrays are then the slices values[start_k:end_k] for the rows of indices *)
Definition rview_of (d : rdir) : option (numtype * byteorder * list Z * list (list Z)) :=
  match view_of (r_values d), view_of (r_indices d), index_rows (r_indices d) with
  | Some (nt, bo, sh, bytes), Some _, Some idx =>
      Some (nt, bo, tl sh,
            map (fun r => zslice_bytes bytes (fst r) (snd r) (prodZ (tl sh) * itemsize nt)) idx)
  | _, _, _ => None
  end.

(* states observed between executed lines *)
Definition rtrace_of (e : reff) (d : rdir) : list rdir :=
  match e with
  | RV x => map (fun a => mkRDir a (r_indices d) (r_descr d) (r_readme d) (r_meta d)) (trace_of x (r_values d))
  | RI x => map (fun a => mkRDir (r_values d) a (r_descr d) (r_readme d) (r_meta d)) (trace_of x (r_indices d))
  | RWriteDescr _ => [mkRDir (r_values d) (r_indices d) Torn (r_readme d) (r_meta d); apply_reff e d]
  | RWriteReadme _ => [mkRDir (r_values d) (r_indices d) (r_descr d) Torn (r_meta d); apply_reff e d]
  | _ => [apply_reff e d]
  end.
Fixpoint rtrace_states (d : rdir) (es : list reff) : list rdir :=
  match es with
  | [] => []
  | e :: es' => rtrace_of e d ++ rtrace_states (apply_reff e d) es'
  end.
