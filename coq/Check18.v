(* Check18.v -- comparison of Json.open_json / darr_open / by_path with observations. *)
From Coq Require Import ZArith List Bool String.
From Darr Require Import Base ArrayModel Json CheckArray.
Import ListNotations.
Open Scope Z_scope.

Definition is_err {A} (r : res A) : bool := match r with Ok _ => false | Err _ => true end.

(* obs: [Array() raised?; darr.open() raised?; delete by path = TypeError?; truncate by path = TypeError?] *)
Definition chk_open (f : jsonfile) (data : option (list Z)) (obs : list bool) : bool :=
  let a := is_err (open_json f data R) in
  let o := is_err (darr_open f data R) in
  let bp := match by_path f data (fun _ => @Ok unit tt) with Err TypeError => true | _ => false end in
  list_eqb Bool.eqb [a; o; bp; bp] obs.

(* a ragged array whose two sub-directories are as given: RaggedArray() raises iff one
   of them does not open *)
Definition chk_open_ragged (fv : jsonfile) (dv : option (list Z)) (fi : jsonfile) (di : option (list Z))
  (raised : bool) : bool :=
  Bool.eqb (is_err (open_json fv dv R) || is_err (open_json fi di R)) raised.
