(* Codec.v -- the documented on-disk format, written as a READER that shares nothing
   with the operation model: headerless raw values in C order; numtype, byteorder,
   shape and arrayorder from the JSON file. *)
From Coq Require Import ZArith List Bool.
From Darr Require Import Base ArrayModel.
Import ListNotations.
Open Scope Z_scope.

(* cut l into n pieces of k bytes *)
Fixpoint pieces (n k : nat) (l : list Z) : list (list Z) :=
  match n with O => [] | S n' => firstn k l :: pieces n' k (skipn k l) end.

(* one element: file bytes <-> canonical (most significant byte first) bytes.
   Little-endian storage reverses each swap unit (complex = two floats). *)
Definition swap_elem (nt : numtype) (bo : byteorder) (e : list Z) : list Z :=
  match bo with
  | Big => e
  | Little => concat (map (@rev Z) (pieces (Z.to_nat (itemsize nt / swapunit nt))
                                          (Z.to_nat (swapunit nt)) e))
  end.

Definition encode (nt : numtype) (bo : byteorder) (elems : list (list Z)) : list Z :=
  concat (map (swap_elem nt bo) elems).
Definition decode (nt : numtype) (bo : byteorder) (n : nat) (bytes : list Z) : list (list Z) :=
  map (swap_elem nt bo) (pieces n (Z.to_nat (itemsize nt)) bytes).

(* the reader: Some (numtype, byteorder, arrayorder, shape, elements in storage order) *)
Definition decode_dir (d : adir) : option (numtype * byteorder * arrayorder * list Z * list (list Z)) :=
  match a_descr d, a_data d with
  | Val ds, Some bytes =>
      if shape_ok (d_shape ds) && (Z.of_nat (length bytes) =? prodZ (d_shape ds) * itemsize (d_nt ds))
      then Some (d_nt ds, d_bo ds, d_ord ds, d_shape ds,
                 decode (d_nt ds) (d_bo ds) (Z.to_nat (prodZ (d_shape ds))) bytes)
      else None
  | _, _ => None
  end.

(* C02's on-disk invariant *)
Definition Inv_disk (d : adir) : Prop :=
  exists ds bytes, a_descr d = Val ds /\ a_data d = Some bytes /\
    Z.of_nat (length bytes) = prodZ (d_shape ds) * itemsize (d_nt ds) /\
    shape_ok (d_shape ds) = true /\
    (exists f, a_readme d = Val f).
