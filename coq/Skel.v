(* Skel.v -- control skeletons of effectful Python functions (the type the
   translator emits into Gen_effects.v) and the effect sequences they admit.
   No proofs in this file. *)
From Coq Require Import List String.
Import ListNotations.

Inductive sk :=
| Call (name : string)          (* a call from the effect vocabulary *)
| Seq (a b : sk)
| If (thn els : sk)
| For (body : sk)
| Try (body handler : sk)
| Finally (body fin : sk)
| Skip | Raise | Return.

(* kinds of file effects *)
Inductive kind := KWrite | KAppend | KTrunc | KPoke | KDescr | KReadme | KMeta | KUnlinkMeta
| KV (k : kind) | KI (k : kind)      (* the effect k in values/ or indices/ of a RaggedArray *)
| KRDescr | KRReadme.                (* top-level description / README of a RaggedArray *)

Inductive outc := Normal | Raised | Returned.

Definition callout (o : outc) : outc := match o with Returned => Normal | x => x end.

(* runs prim sub s o ks: the skeleton s can finish with outcome o having performed the
   effects ks, in this order.  An over-approximation of the Python semantics: a
   condition may go either way, a loop may run any number of times, ANY statement may
   raise before doing anything, a primitive call may raise after part of its effects.
   prim gives the effects of a vocabulary call that is not expanded, sub the skeleton
   of one that is. *)
Section Runs.
  Variable prim : string -> list kind.
  Variable sub : string -> option sk.

  Inductive runs : sk -> outc -> list kind -> Prop :=
  | R_any_raise : forall s, runs s Raised []
  | R_skip : runs Skip Normal []
  | R_return : runs Return Returned []
  | R_prim : forall n, sub n = None -> runs (Call n) Normal (prim n)
  | R_prim_fail : forall n p q, sub n = None -> prim n = p ++ q -> runs (Call n) Raised p
  | R_sub : forall n s o ks, sub n = Some s -> runs s o ks -> runs (Call n) (callout o) ks
  | R_seq : forall a b ka o kb, runs a Normal ka -> runs b o kb -> runs (Seq a b) o (ka ++ kb)
  | R_seq_stop : forall a b o ka, o <> Normal -> runs a o ka -> runs (Seq a b) o ka
  | R_if_t : forall t e o k, runs t o k -> runs (If t e) o k
  | R_if_e : forall t e o k, runs e o k -> runs (If t e) o k
  | R_for_0 : forall b, runs (For b) Normal []
  | R_for_s : forall b k1 o k2, runs b Normal k1 -> runs (For b) o k2 -> runs (For b) o (k1 ++ k2)
  | R_for_stop : forall b o k, o <> Normal -> runs b o k -> runs (For b) o k
  | R_try_ok : forall b h o k, o <> Raised -> runs b o k -> runs (Try b h) o k
  | R_try_h : forall b h kb o kh, runs b Raised kb -> runs h o kh -> runs (Try b h) o (kb ++ kh)
  | R_fin : forall b f o kb kf, runs b o kb -> runs f Normal kf -> runs (Finally b f) o (kb ++ kf).
End Runs.
