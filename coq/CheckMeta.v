(* CheckMeta.v -- comparison of the metadata model with observations. *)
From Coq Require Import ZArith List Bool.
From Darr Require Import Base Meta CheckArray.
Import ListNotations.
Open Scope Z_scope.

Definition kv_flat (p : key * val) : list Z := [zlen (fst p)] ++ fst p ++ [zlen (snd p)] ++ snd p.
Definition dict_flat (d : dict) : list Z := zlen d :: concat (map kv_flat d).
Definition mfile_flat (f : jfile dict) : list Z :=
  match f with Absent => [-1] | Torn => [-2] | Val d => 0 :: dict_flat d end.
Definition mout_flat (o : mout) : list Z :=
  match o with
  | ONone => [0] | OVal v => 1 :: zlen v :: v | ODefault => [2]
  | OItem k v => [3; zlen k] ++ k ++ [zlen v] ++ v
  | OErr e => [9; exc_code e]
  end.
(* after every step: what the call returned, the file, and dict(metadata) *)
Fixpoint mchk_steps (s : mstate) (os : list mop) (obs : list (list Z * list Z)) : bool :=
  match os, obs with
  | [], [] => true
  | o :: os', (ro, fl) :: obs' =>
      let '(r, s') := m_step s o in
      zlist_eqb (mout_flat r) ro && zlist_eqb (mfile_flat (m_file s')) fl && mchk_steps s' os' obs'
  | _, _ => false
  end.
Fixpoint mdbg_steps (s : mstate) (os : list mop) : list (list Z * list Z) :=
  match os with
  | [] => []
  | o :: os' => let '(r, s') := m_step s o in (mout_flat r, mfile_flat (m_file s')) :: mdbg_steps s' os'
  end.
